//! Guard-page arenas: a buffer placed flush against an inaccessible page on its right or left
//! side, optionally read-only, pre-filled with a canary pattern so that writes outside an
//! expected window are detected. Under Miri plain vectors are used (Miri checks bounds itself).
use crate::rng::Rng;

#[derive(Clone, Copy, Debug, PartialEq, Eq)]
pub enum Side {
    /// buffer ends exactly where a PROT_NONE page begins
    Right,
    /// buffer begins exactly where a PROT_NONE page ends
    Left,
}

pub struct Arena {
    #[cfg(not(miri))]
    base: *mut u8,
    #[cfg(not(miri))]
    map_len: usize,
    #[cfg(miri)]
    store: Vec<u8>,
    off: usize,
    len: usize,
    /// bytes of accessible slack on the non-flush side (canary region)
    slack_lo: usize,
    slack_hi: usize,
    canary_seed: u64,
    readonly: bool,
}

unsafe impl Send for Arena {}

pub const PAGE: usize = 4096;

fn canary_byte(seed: u64, i: usize) -> u8 {
    let x = (i as u64).wrapping_mul(0x9E3779B97F4A7C15) ^ seed;
    ((x >> 29) ^ (x >> 7)) as u8 | 1
}

impl Arena {
    /// Allocate `len` bytes flush against a guard page on `side`. The whole accessible region
    /// (buffer and slack) is filled with a canary pattern derived from `seed`.
    pub fn new(len: usize, side: Side, seed: u64) -> Arena {
        let data_pages = (len + PAGE - 1) / PAGE + 1; // at least one page, plus slack
        #[cfg(not(miri))]
        {
            let map_len = (data_pages + 2) * PAGE;
            let pooled = POOL.with(|p| p.borrow_mut().get_mut(&data_pages).and_then(|v| v.pop()));
            let base = match pooled {
                Some(b) => b as *mut u8,
                None => {
                    let base = unsafe {
                        libc::mmap(
                            core::ptr::null_mut(),
                            map_len,
                            libc::PROT_READ | libc::PROT_WRITE,
                            libc::MAP_PRIVATE | libc::MAP_ANONYMOUS,
                            -1,
                            0,
                        )
                    };
                    assert!(base != libc::MAP_FAILED, "mmap failed");
                    let base = base as *mut u8;
                    unsafe {
                        assert_eq!(libc::mprotect(base as *mut _, PAGE, libc::PROT_NONE), 0);
                        assert_eq!(libc::mprotect(base.add(map_len - PAGE) as *mut _, PAGE, libc::PROT_NONE), 0);
                    }
                    base
                }
            };
            let acc = data_pages * PAGE;
            let off = match side {
                Side::Right => PAGE + acc - len,
                Side::Left => PAGE,
            };
            let (slack_lo, slack_hi) = match side {
                Side::Right => (acc - len, 0),
                Side::Left => (0, acc - len),
            };
            let a = Arena { base, map_len, off, len, slack_lo, slack_hi, canary_seed: seed, readonly: false };
            unsafe {
                for i in 0..acc {
                    *base.add(PAGE + i) = canary_byte(seed, i);
                }
            }
            a
        }
        #[cfg(miri)]
        {
            let _ = (side, data_pages);
            // 64-byte aligned start inside an over-allocated vector (Miri checks real addresses)
            let mut store: Vec<u8> = vec![0u8; len + 64];
            let off = store.as_ptr().align_offset(64);
            for i in 0..len {
                store[off + i] = canary_byte(seed, i);
            }
            Arena { store, off, len, slack_lo: 0, slack_hi: 0, canary_seed: seed, readonly: false }
        }
    }

    pub fn with_data(data: &[u8], side: Side) -> Arena {
        let mut a = Arena::new(data.len(), side, 0x5EED);
        a.as_mut_slice().copy_from_slice(data);
        a
    }

    pub fn len(&self) -> usize {
        self.len
    }

    pub fn as_ptr(&self) -> *const u8 {
        #[cfg(not(miri))]
        unsafe {
            self.base.add(self.off)
        }
        #[cfg(miri)]
        {
            unsafe { self.store.as_ptr().add(self.off) }
        }
    }
    pub fn as_mut_ptr(&mut self) -> *mut u8 {
        #[cfg(not(miri))]
        unsafe {
            self.base.add(self.off)
        }
        #[cfg(miri)]
        {
            unsafe { self.store.as_mut_ptr().add(self.off) }
        }
    }
    pub fn as_slice(&self) -> &[u8] {
        unsafe { core::slice::from_raw_parts(self.as_ptr(), self.len) }
    }
    pub fn as_mut_slice(&mut self) -> &mut [u8] {
        unsafe { core::slice::from_raw_parts_mut(self.as_mut_ptr(), self.len) }
    }

    /// Make the accessible pages read-only (inputs) or read-write again.
    pub fn set_readonly(&mut self, ro: bool) {
        self.readonly = ro;
        #[cfg(not(miri))]
        unsafe {
            let prot = if ro { libc::PROT_READ } else { libc::PROT_READ | libc::PROT_WRITE };
            assert_eq!(libc::mprotect(self.base.add(PAGE) as *mut _, self.map_len - 2 * PAGE, prot), 0);
        }
        #[cfg(miri)]
        {
            let _ = ro;
        }
    }

    /// Refill buffer with the canary pattern (slack is untouched and must still be intact).
    pub fn recanary(&mut self, rng: &mut Rng) {
        let _ = rng;
        let seed = self.canary_seed;
        let lo = self.slack_lo;
        for (i, b) in self.as_mut_slice().iter_mut().enumerate() {
            *b = canary_byte(seed, lo + i);
        }
    }

    /// Check that every byte of the buffer outside `window` (relative to the buffer) and every
    /// slack byte still holds its canary. Returns the first offending offset relative to the
    /// buffer start (negative = in the low slack).
    pub fn canary_violation(&self, window: core::ops::Range<usize>) -> Option<isize> {
        let seed = self.canary_seed;
        #[cfg(not(miri))]
        unsafe {
            let acc0 = self.base.add(PAGE);
            for i in 0..self.slack_lo {
                if *acc0.add(i) != canary_byte(seed, i) {
                    return Some(i as isize - self.slack_lo as isize);
                }
            }
            for i in 0..self.slack_hi {
                let idx = self.slack_lo + self.len + i;
                if *acc0.add(idx) != canary_byte(seed, idx) {
                    return Some((self.len + i) as isize);
                }
            }
        }
        let s = self.as_slice();
        for i in 0..self.len {
            if !window.contains(&i) && s[i] != canary_byte(seed, self.slack_lo + i) {
                return Some(i as isize);
            }
        }
        None
    }
}

#[cfg(not(miri))]
thread_local! {
    /// per-thread pool of mappings (guard pages already in place), keyed by data page count
    static POOL: std::cell::RefCell<std::collections::HashMap<usize, Vec<usize>>> = std::cell::RefCell::new(Default::default());
}

impl Drop for Arena {
    fn drop(&mut self) {
        #[cfg(not(miri))]
        {
            if self.readonly {
                self.set_readonly(false);
            }
            let data_pages = self.map_len / PAGE - 2;
            let base = self.base as usize;
            let kept = data_pages <= 4
                && POOL
                    .try_with(|p| {
                        let mut p = p.borrow_mut();
                        let v = p.entry(data_pages).or_default();
                        if v.len() < 96 {
                            v.push(base);
                            true
                        } else {
                            false
                        }
                    })
                    .unwrap_or(false);
            if !kept {
                unsafe {
                    libc::munmap(self.base as *mut _, self.map_len);
                }
            }
        }
    }
}
