//! xoshiro256** seeded through splitmix64 from (seed, stream). All randomness of every monitor
//! derives from VERIF_SEED through this generator, so a (seed, index) pair replays a case.
#[derive(Clone, Debug)]
pub struct Rng {
    s: [u64; 4],
}

fn splitmix(x: &mut u64) -> u64 {
    *x = x.wrapping_add(0x9E3779B97F4A7C15);
    let mut z = *x;
    z = (z ^ (z >> 30)).wrapping_mul(0xBF58476D1CE4E5B9);
    z = (z ^ (z >> 27)).wrapping_mul(0x94D049BB133111EB);
    z ^ (z >> 31)
}

impl Rng {
    pub fn new(seed: u64, stream: u64) -> Self {
        let mut x = seed ^ stream.wrapping_mul(0xD1342543DE82EF95) ^ 0x5851F42D4C957F2D;
        let mut s = [0u64; 4];
        for i in 0..4 {
            s[i] = splitmix(&mut x);
        }
        Rng { s }
    }
    pub fn u64(&mut self) -> u64 {
        let r = self.s[1].wrapping_mul(5).rotate_left(7).wrapping_mul(9);
        let t = self.s[1] << 17;
        self.s[2] ^= self.s[0];
        self.s[3] ^= self.s[1];
        self.s[1] ^= self.s[2];
        self.s[0] ^= self.s[3];
        self.s[2] ^= t;
        self.s[3] = self.s[3].rotate_left(45);
        r
    }
    /// uniform in 0..n (n > 0)
    pub fn below(&mut self, n: u64) -> u64 {
        debug_assert!(n > 0);
        ((self.u64() as u128 * n as u128) >> 64) as u64
    }
    pub fn usize_below(&mut self, n: usize) -> usize {
        self.below(n as u64) as usize
    }
    pub fn range(&mut self, lo: u64, hi_incl: u64) -> u64 {
        lo + self.below(hi_incl - lo + 1)
    }
    pub fn chance(&mut self, num: u64, den: u64) -> bool {
        self.below(den) < num
    }
    pub fn pick<'a, T>(&mut self, xs: &'a [T]) -> &'a T {
        &xs[self.usize_below(xs.len())]
    }
    pub fn fill(&mut self, buf: &mut [u8]) {
        let mut i = 0;
        while i + 8 <= buf.len() {
            buf[i..i + 8].copy_from_slice(&self.u64().to_le_bytes());
            i += 8;
        }
        if i < buf.len() {
            let w = self.u64().to_le_bytes();
            let n = buf.len() - i;
            buf[i..].copy_from_slice(&w[..n]);
        }
    }
    pub fn bytes(&mut self, n: usize) -> Vec<u8> {
        let mut v = vec![0u8; n];
        self.fill(&mut v);
        v
    }
    pub fn array32(&mut self) -> [u8; 32] {
        let mut a = [0u8; 32];
        self.fill(&mut a);
        a
    }
}
