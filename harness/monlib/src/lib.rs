//! Shared pieces of the runtime monitors: PRNG, hostile generators, guard-page arenas,
//! canaries, JSON report writer.
pub mod arena;
pub mod gen;
pub mod report;
pub mod rng;

pub use report::{Json, Report, Violation};
pub use rng::Rng;

pub fn hex(b: &[u8]) -> String {
    let mut s = String::with_capacity(b.len() * 2);
    for x in b {
        s.push_str(&format!("{:02x}", x));
    }
    s
}

pub fn unhex(s: &str) -> Option<Vec<u8>> {
    if s.len() % 2 != 0 {
        return None;
    }
    let mut out = Vec::with_capacity(s.len() / 2);
    let b = s.as_bytes();
    for i in (0..b.len()).step_by(2) {
        let h = (b[i] as char).to_digit(16)?;
        let l = (b[i + 1] as char).to_digit(16)?;
        out.push((h * 16 + l) as u8);
    }
    Some(out)
}

/// Run `f` catching panics; returns Err(message) on panic.
pub fn guarded<T>(f: impl FnOnce() -> T) -> Result<T, String> {
    match std::panic::catch_unwind(std::panic::AssertUnwindSafe(f)) {
        Ok(v) => Ok(v),
        Err(p) => {
            let msg = if let Some(s) = p.downcast_ref::<&str>() {
                s.to_string()
            } else if let Some(s) = p.downcast_ref::<String>() {
                s.clone()
            } else {
                "non-string panic payload".to_string()
            };
            Err(msg)
        }
    }
}

thread_local! {
    static LAST_PANIC_AT: std::cell::RefCell<String> = const { std::cell::RefCell::new(String::new()) };
}

/// Install a panic hook that stays silent (monitors report panics themselves) but remembers, per
/// thread, the source location of the most recent panic.
pub fn quiet_panics() {
    std::panic::set_hook(Box::new(|info| {
        let at = info.location().map(|l| format!("{}:{}", l.file(), l.line())).unwrap_or_default();
        let _ = LAST_PANIC_AT.try_with(|c| {
            if let Ok(mut c) = c.try_borrow_mut() {
                *c = at;
            }
        });
    }));
}

/// "file:line" of the most recent panic on this thread ("" if none).
pub fn last_panic_at() -> String {
    LAST_PANIC_AT.with(|c| c.borrow().clone())
}

pub mod crash;
pub mod storm;

/// FNV-1a 64 accumulator used for transcripts (cross-configuration equality checks).
#[derive(Clone, Copy)]
pub struct Fnv(pub u64);
impl Fnv {
    pub fn new() -> Fnv {
        Fnv(0xcbf29ce484222325)
    }
    pub fn add(&mut self, bytes: &[u8]) {
        for b in bytes {
            self.0 ^= *b as u64;
            self.0 = self.0.wrapping_mul(0x100000001b3);
        }
    }
    pub fn add_u64(&mut self, x: u64) {
        self.add(&x.to_le_bytes());
    }
}
