//! Minimal JSON value + monitor report (no external dependencies so that it also runs under
//! Miri and in every feature flavour).
use std::collections::BTreeMap;
use std::fmt::Write as _;

#[derive(Clone, Debug)]
pub enum Json {
    Null,
    Bool(bool),
    Int(i128),
    Str(String),
    Arr(Vec<Json>),
    Obj(BTreeMap<String, Json>),
}

impl Json {
    pub fn obj(pairs: Vec<(&str, Json)>) -> Json {
        Json::Obj(pairs.into_iter().map(|(k, v)| (k.to_string(), v)).collect())
    }
    pub fn s(x: impl Into<String>) -> Json {
        Json::Str(x.into())
    }
    pub fn i(x: impl Into<i128>) -> Json {
        Json::Int(x.into())
    }
    pub fn u(x: usize) -> Json {
        Json::Int(x as i128)
    }
    pub fn render(&self, out: &mut String) {
        match self {
            Json::Null => out.push_str("null"),
            Json::Bool(b) => out.push_str(if *b { "true" } else { "false" }),
            Json::Int(i) => {
                let _ = write!(out, "{}", i);
            }
            Json::Str(s) => {
                out.push('"');
                for c in s.chars() {
                    match c {
                        '"' => out.push_str("\\\""),
                        '\\' => out.push_str("\\\\"),
                        '\n' => out.push_str("\\n"),
                        '\r' => out.push_str("\\r"),
                        '\t' => out.push_str("\\t"),
                        c if (c as u32) < 0x20 => {
                            let _ = write!(out, "\\u{:04x}", c as u32);
                        }
                        c => out.push(c),
                    }
                }
                out.push('"');
            }
            Json::Arr(a) => {
                out.push('[');
                for (i, x) in a.iter().enumerate() {
                    if i > 0 {
                        out.push(',');
                    }
                    x.render(out);
                }
                out.push(']');
            }
            Json::Obj(o) => {
                out.push('{');
                for (i, (k, v)) in o.iter().enumerate() {
                    if i > 0 {
                        out.push(',');
                    }
                    Json::Str(k.clone()).render(out);
                    out.push(':');
                    v.render(out);
                }
                out.push('}');
            }
        }
    }
    pub fn to_string(&self) -> String {
        let mut s = String::new();
        self.render(&mut s);
        s
    }
}

#[derive(Clone, Debug)]
pub struct Violation {
    /// stable signature: property/monitor/failure-class (keys known_findings.json)
    pub sig: String,
    pub detail: String,
    /// arguments that make `mon` re-run exactly this case
    pub replay_args: Vec<String>,
}

/// What one monitor run observed. Merged across worker threads, then printed as JSON.
#[derive(Default)]
pub struct Report {
    pub evaluations: u64,
    pub distinct: std::collections::BTreeSet<String>,
    pub samples: Vec<Json>,
    pub violations: Vec<Violation>,
    pub counters: BTreeMap<String, u64>,
    pub sets: BTreeMap<String, std::collections::BTreeSet<String>>,
    pub inconclusive: Vec<String>,
    pub max_samples: usize,
}

impl Report {
    pub fn new() -> Report {
        Report { max_samples: 6, ..Default::default() }
    }
    pub fn eval(&mut self, class: impl Into<String>) {
        self.evaluations += 1;
        self.distinct.insert(class.into());
    }
    pub fn count(&mut self, key: &str, n: u64) {
        *self.counters.entry(key.to_string()).or_insert(0) += n;
    }
    pub fn seen(&mut self, set: &str, item: impl Into<String>) {
        self.sets.entry(set.to_string()).or_default().insert(item.into());
    }
    pub fn sample(&mut self, j: Json) {
        if self.samples.len() < self.max_samples {
            self.samples.push(j);
        }
    }
    pub fn violation(&mut self, sig: impl Into<String>, detail: impl Into<String>, replay_args: Vec<String>) {
        if self.violations.len() < 200 {
            self.violations.push(Violation { sig: sig.into(), detail: detail.into(), replay_args });
        } else {
            self.count("violations_dropped", 1);
        }
    }
    pub fn merge(&mut self, other: Report) {
        self.evaluations += other.evaluations;
        self.distinct.extend(other.distinct);
        for s in other.samples {
            self.sample(s);
        }
        for v in other.violations {
            if self.violations.len() < 200 {
                self.violations.push(v);
            }
        }
        for (k, v) in other.counters {
            *self.counters.entry(k).or_insert(0) += v;
        }
        for (k, v) in other.sets {
            self.sets.entry(k).or_default().extend(v);
        }
        self.inconclusive.extend(other.inconclusive);
    }
    pub fn to_json(&self, monitor: &str, rule: &str) -> Json {
        let mut sets = BTreeMap::new();
        for (k, v) in &self.sets {
            let items: Vec<Json> = v.iter().take(64).map(|s| Json::s(s.clone())).collect();
            sets.insert(k.clone(), Json::obj(vec![("count", Json::u(v.len())), ("items", Json::Arr(items))]));
        }
        Json::obj(vec![
            ("monitor", Json::s(monitor)),
            ("rule", Json::s(rule)),
            ("evaluations", Json::Int(self.evaluations as i128)),
            ("distinct_nontrivial", Json::u(self.distinct.len())),
            ("samples", Json::Arr(self.samples.clone())),
            (
                "violations",
                Json::Arr(
                    self.violations
                        .iter()
                        .map(|v| {
                            Json::obj(vec![
                                ("sig", Json::s(v.sig.clone())),
                                ("detail", Json::s(v.detail.clone())),
                                ("replay_args", Json::Arr(v.replay_args.iter().map(|a| Json::s(a.clone())).collect())),
                            ])
                        })
                        .collect(),
                ),
            ),
            ("counters", Json::Obj(self.counters.iter().map(|(k, v)| (k.clone(), Json::Int(*v as i128))).collect())),
            ("sets", Json::Obj(sets)),
            ("inconclusive", Json::Arr(self.inconclusive.iter().map(|s| Json::s(s.clone())).collect())),
        ])
    }
}
