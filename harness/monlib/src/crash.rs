//! Fatal-signal journal: a SIGSEGV/SIGBUS/SIGILL handler that reports the faulting address and
//! the case in flight on the faulting thread, then exits with status 77. The check driver turns
//! that line into a violation (fault on a guard page while a monitored call was in flight) with
//! a replayable case, instead of guessing from a bare death signal.
use std::cell::Cell;

thread_local! {
    static CASE: Cell<(u64, u64, u64)> = const { Cell::new((u64::MAX, 0, 0)) };
}

/// Record the case in flight on this thread: (index, platform code, phase tag).
pub fn set_case(index: u64, platform: u64, phase: u64) {
    CASE.with(|c| c.set((index, platform, phase)));
}

#[cfg(not(miri))]
fn fmt_u64(buf: &mut [u8], pos: &mut usize, mut x: u64, hexa: bool) {
    let base = if hexa { 16 } else { 10 };
    let mut tmp = [0u8; 24];
    let mut n = 0;
    if x == 0 {
        tmp[0] = b'0';
        n = 1;
    }
    while x > 0 {
        let d = (x % base) as u8;
        tmp[n] = if d < 10 { b'0' + d } else { b'a' + d - 10 };
        x /= base;
        n += 1;
    }
    while n > 0 && *pos < buf.len() {
        n -= 1;
        buf[*pos] = tmp[n];
        *pos += 1;
    }
}

#[cfg(not(miri))]
fn put(buf: &mut [u8], pos: &mut usize, s: &[u8]) {
    for b in s {
        if *pos < buf.len() {
            buf[*pos] = *b;
            *pos += 1;
        }
    }
}

#[cfg(not(miri))]
extern "C" fn handler(sig: libc::c_int, info: *mut libc::siginfo_t, _ctx: *mut libc::c_void) {
    let addr = unsafe { (*info).si_addr() as u64 };
    let (idx, plat, phase) = CASE.with(|c| c.get());
    let mut buf = [0u8; 200];
    let mut pos = 0;
    put(&mut buf, &mut pos, b"\nCRASH signal=");
    fmt_u64(&mut buf, &mut pos, sig as u64, false);
    put(&mut buf, &mut pos, b" addr=0x");
    fmt_u64(&mut buf, &mut pos, addr, true);
    put(&mut buf, &mut pos, b" case=");
    fmt_u64(&mut buf, &mut pos, idx, false);
    put(&mut buf, &mut pos, b" plat=");
    fmt_u64(&mut buf, &mut pos, plat, false);
    put(&mut buf, &mut pos, b" phase=");
    fmt_u64(&mut buf, &mut pos, phase, false);
    put(&mut buf, &mut pos, b"\n");
    unsafe {
        libc::write(1, buf.as_ptr() as *const _, pos);
        libc::_exit(77);
    }
}

pub fn install() {
    #[cfg(not(miri))]
    unsafe {
        // alternate stack so that stack overflows are reported too
        let ss_size = 1 << 16;
        let stack = libc::mmap(core::ptr::null_mut(), ss_size, libc::PROT_READ | libc::PROT_WRITE, libc::MAP_PRIVATE | libc::MAP_ANONYMOUS, -1, 0);
        let ss = libc::stack_t { ss_sp: stack, ss_flags: 0, ss_size };
        libc::sigaltstack(&ss, core::ptr::null_mut());
        let mut sa: libc::sigaction = core::mem::zeroed();
        sa.sa_sigaction = handler as usize;
        sa.sa_flags = libc::SA_SIGINFO | libc::SA_ONSTACK;
        libc::sigemptyset(&mut sa.sa_mask);
        for sig in [libc::SIGSEGV, libc::SIGBUS, libc::SIGILL, libc::SIGFPE] {
            libc::sigaction(sig, &sa, core::ptr::null_mut());
        }
    }
}
