//! Hostile generators shared by the history monitors.
use crate::rng::Rng;
use specmodel::Mode;

/// Content classes for inputs.
pub fn content(rng: &mut Rng, n: usize) -> Vec<u8> {
    match rng.below(8) {
        0 => vec![0u8; n],
        1 => vec![0xFFu8; n],
        2 => (0..n).map(|i| (i % 251) as u8).collect(),
        _ => rng.bytes(n),
    }
}

pub fn key(rng: &mut Rng) -> [u8; 32] {
    match rng.below(8) {
        0 => [0u8; 32],
        1 => [0xFF; 32],
        2 => {
            // keys that coincide with constants the implementation uses internally: the IV in
            // little-endian byte order (a keyed hasher whose key words equal the IV), or
            // big-endian, or one bit away from it
            let mut k = [0u8; 32];
            for (i, w) in specmodel::IV.iter().enumerate() {
                let b = if rng.chance(3, 4) { w.to_le_bytes() } else { w.to_be_bytes() };
                k[4 * i..4 * i + 4].copy_from_slice(&b);
            }
            if rng.chance(1, 4) {
                let bit = rng.usize_below(256);
                k[bit / 8] ^= 1 << (bit % 8);
            }
            k
        }
        _ => rng.array32(),
    }
}

/// Context strings: empty, ASCII, non-ASCII UTF-8, exactly one chunk, one chunk + 1, multi-chunk.
pub fn context(rng: &mut Rng) -> String {
    match rng.below(8) {
        0 => String::new(),
        1 => "BLAKE3 2019-12-27 16:29:52 test vectors context".to_string(),
        2 => "ключ — 鍵 🔑 naïve".to_string(),
        3 => "c".repeat(1024),
        4 => "d".repeat(1025),
        5 => {
            let n = 1 + rng.usize_below(5000);
            (0..n).map(|i| (b'a' + (i % 26) as u8) as char).collect()
        }
        6 => {
            // multi-byte characters straddling block boundaries
            let n = 1 + rng.usize_below(700);
            "é否😀".chars().cycle().take(n).collect()
        }
        _ => {
            let n = rng.usize_below(200);
            (0..n).map(|_| (b' ' + rng.below(95) as u8) as char).collect()
        }
    }
}

pub fn mode(rng: &mut Rng) -> Mode {
    match rng.below(3) {
        0 => Mode::Hash,
        1 => Mode::Keyed(key(rng)),
        _ => Mode::DeriveKey(context(rng).into_bytes()),
    }
}

pub fn mode_name(m: &Mode) -> &'static str {
    match m {
        Mode::Hash => "hash",
        Mode::Keyed(_) => "keyed",
        Mode::DeriveKey(_) => "derive",
    }
}

/// A hostile update length, at most `max` (max >= 0).
pub fn hostile_len(rng: &mut Rng, max: usize) -> usize {
    const SMALL: [usize; 14] = [0, 1, 2, 31, 32, 33, 63, 64, 65, 127, 128, 1023, 1024, 1025];
    let n = match rng.below(12) {
        0 | 1 => *rng.pick(&SMALL),
        2 => 1024 * (1 + rng.usize_below(40)),
        3 => {
            let j = rng.usize_below(15);
            1024usize << j
        }
        4 => {
            let j = rng.usize_below(15);
            let base = 1024usize << j;
            let d = [1usize, 63, 64, 65][rng.usize_below(4)];
            if rng.chance(1, 2) { base + d } else { base - d }
        }
        5 => {
            // k chunks +- block-ish deltas
            let k = 1 + rng.usize_below(70);
            let d = [0isize, -65, -64, -63, -1, 1, 63, 64, 65][rng.usize_below(9)];
            ((1024 * k) as isize + d) as usize
        }
        6 => 64 * rng.usize_below(40) + rng.usize_below(3),
        7 => rng.usize_below(2050),
        8 => rng.usize_below(20_000),
        9 => {
            // SIMD-degree multiples
            let deg = [4usize, 8, 16, 32][rng.usize_below(4)];
            1024 * deg * (1 + rng.usize_below(4)) + [0usize, 1, 1023, 1024][rng.usize_below(4)]
        }
        _ => rng.usize_below(max + 1),
    };
    core::cmp::min(n, max)
}

/// Lattice of one-shot lengths around block / chunk / power-of-two-subtree / SIMD boundaries.
pub fn lattice_lengths(max_chunks_extra: &[usize]) -> Vec<usize> {
    let mut v = Vec::new();
    let deltas: [isize; 9] = [-65, -64, -63, -1, 0, 1, 63, 64, 65];
    let mut ks: Vec<usize> = (1..=40).collect();
    ks.extend_from_slice(&[63, 64, 65, 127, 128, 129, 255, 256, 257]);
    ks.extend_from_slice(max_chunks_extra);
    for k in ks {
        for d in deltas {
            let n = (1024 * k) as isize + d;
            if n >= 0 {
                v.push(n as usize);
            }
        }
    }
    v.sort();
    v.dedup();
    v
}

/// Output seek positions: block edges, both sides of the 2^32 block-counter boundary, huge.
pub fn hostile_seek(rng: &mut Rng) -> u64 {
    match rng.below(10) {
        0 => 0,
        1 => *rng.pick(&[1u64, 31, 32, 33, 63, 64, 65, 127, 128, 1023, 1024, 1025]),
        2 | 3 => {
            // near 64 * 2^32: within 20 blocks on either side, random offset in block
            let j = rng.below(41) as i64 - 20;
            let base = (64u64 << 32) as i128 + (j as i128) * 64 + rng.below(64) as i128;
            base as u64
        }
        4 if rng.chance(1, 3) => {
            // block counter near k * 2^32 for k >= 2 (carry into a high word that is already non-zero,
            // even and odd)
            let kmax = if rng.chance(1, 2) { 14 } else { 1 << 25 };
            let k = 2 + rng.below(kmax);
            let j = rng.below(41) as i128 - 20;
            (((k as i128) << 32) * 64 + j * 64 + rng.below(64) as i128) as u64
        }
        4 => {
            if rng.chance(1, 2) {
                // block counter 2^31 (the signed-compare trap in SIMD counter arithmetic)
                let j = rng.below(41) as i64 - 20;
                ((64u64 << 31) as i128 + (j as i128) * 64 + rng.below(64) as i128) as u64
            } else {
                (1u64 << 38) + rng.below(1 << 20)
            }
        }
        5 => {
            if rng.chance(1, 2) {
                // the very end of the 2^64-1 byte stream (callers clamp so that reads stay inside)
                u64::MAX - rng.below(300)
            } else {
                (1u64 << 40) + 3
            }
        }
        6 => 1u64 << 63,
        7 => 64 * rng.below(1 << 40) + rng.below(64),
        8 => rng.below(5000),
        _ => rng.u64() >> rng.below(64),
    }
}

pub fn hostile_outlen(rng: &mut Rng, max: usize) -> usize {
    const MENU: [usize; 22] = [0, 1, 31, 32, 33, 63, 64, 65, 127, 128, 129, 959, 960, 961, 1023, 1024, 1025, 1041, 2048, 4097, 31 * 1024, 100 * 1024];
    let n = if rng.chance(3, 4) { *rng.pick(&MENU) } else { rng.usize_below(3000) };
    core::cmp::min(n, max)
}
