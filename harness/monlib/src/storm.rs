//! Asynchronous-signal storm for the Rust monitors (`VERIF_SIGSTORM=<microseconds>`): a helper
//! thread sends SIGUSR1 to every other thread of the process in a loop. The handler (SA_RESTART,
//! not SA_ONSTACK) runs on the interrupted thread's own stack, so the kernel builds the signal
//! frame right below the 128-byte red zone of whatever code was running - for instance the
//! hand-written assembly kernels. A routine that keeps live data further down than the ABI allows
//! computes wrong results under the storm; the ordinary oracles of the monitor then fire.
use std::sync::atomic::{AtomicBool, AtomicU64, Ordering};

static HANDLED: AtomicU64 = AtomicU64::new(0);
static SENT: AtomicU64 = AtomicU64::new(0);
static STOP: AtomicBool = AtomicBool::new(false);

#[cfg(not(miri))]
extern "C" fn on_usr1(_: libc::c_int) {
    HANDLED.fetch_add(1, Ordering::Relaxed);
}

/// Signals handled so far by all threads.
pub fn handled() -> u64 {
    HANDLED.load(Ordering::Relaxed)
}
pub fn sent() -> u64 {
    SENT.load(Ordering::Relaxed)
}
pub fn stop() {
    STOP.store(true, Ordering::SeqCst);
}

/// Start the storm if VERIF_SIGSTORM is set. Returns the interval in microseconds.
pub fn start_from_env() -> Option<u64> {
    #[cfg(miri)]
    {
        None
    }
    #[cfg(not(miri))]
    {
        let us: u64 = std::env::var("VERIF_SIGSTORM").ok()?.parse().ok()?;
        if us == 0 {
            return None;
        }
        unsafe {
            let mut sa: libc::sigaction = core::mem::zeroed();
            sa.sa_sigaction = on_usr1 as usize;
            sa.sa_flags = libc::SA_RESTART;
            libc::sigemptyset(&mut sa.sa_mask);
            libc::sigaction(libc::SIGUSR1, &sa, core::ptr::null_mut());
        }
        std::thread::Builder::new()
            .name("sigstorm".into())
            .spawn(move || {
                let me = unsafe { libc::syscall(libc::SYS_gettid) } as u64;
                let pid = unsafe { libc::getpid() };
                let mut tids: Vec<u64> = Vec::new();
                let mut round = 0u64;
                while !STOP.load(Ordering::SeqCst) {
                    if round % 64 == 0 {
                        tids.clear();
                        if let Ok(rd) = std::fs::read_dir("/proc/self/task") {
                            for e in rd.flatten() {
                                if let Ok(t) = e.file_name().to_string_lossy().parse::<u64>() {
                                    if t != me {
                                        tids.push(t);
                                    }
                                }
                            }
                        }
                    }
                    for &t in &tids {
                        unsafe { libc::syscall(libc::SYS_tgkill, pid, t as i32, libc::SIGUSR1) };
                        SENT.fetch_add(1, Ordering::Relaxed);
                    }
                    round += 1;
                    let t0 = std::time::Instant::now();
                    while (t0.elapsed().as_micros() as u64) < us {
                        core::hint::spin_loop();
                    }
                }
            })
            .ok()?;
        Some(us)
    }
}
