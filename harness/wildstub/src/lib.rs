//! Stand-in for the `wild` crate, which only adds glob expansion on Windows. On Unix
//! `wild::args_os()` is documented (and stated in b3sum's own source) to be equivalent to
//! `std::env::args_os()`.
pub fn args_os() -> std::env::ArgsOs {
    std::env::args_os()
}
