//! Executable model of the BLAKE3 specification, written from the paper (sections 2.1-2.6),
//! deliberately structured differently from every implementation in the repository under test:
//! a pure recursive tree definition over a complete byte string, no CV stack, no SIMD, no
//! incremental state, no dependency on `blake3` or `reference_impl`.
//!
//! Trusted base of all behavioural monitors; cross-checked against `pyspec/b3spec.py` and against
//! externally known digests by `selftest()` on every run.

pub const IV: [u32; 8] = [
    0x6A09E667, 0xBB67AE85, 0x3C6EF372, 0xA54FF53A, 0x510E527F, 0x9B05688C, 0x1F83D9AB, 0x5BE0CD19,
];

/// The message word permutation applied between rounds (paper, table 2).
pub const PERMUTATION: [usize; 16] = [2, 6, 3, 10, 7, 0, 4, 13, 1, 11, 12, 5, 9, 14, 15, 8];

pub const CHUNK_START: u32 = 1;
pub const CHUNK_END: u32 = 2;
pub const PARENT: u32 = 4;
pub const ROOT: u32 = 8;
pub const KEYED_HASH: u32 = 16;
pub const DERIVE_KEY_CONTEXT: u32 = 32;
pub const DERIVE_KEY_MATERIAL: u32 = 64;

pub const BLOCK: usize = 64;
pub const CHUNK: usize = 1024;

#[inline(always)]
fn g(v: &mut [u32; 16], a: usize, b: usize, c: usize, d: usize, x: u32, y: u32) {
    v[a] = v[a].wrapping_add(v[b]).wrapping_add(x);
    v[d] = (v[d] ^ v[a]).rotate_right(16);
    v[c] = v[c].wrapping_add(v[d]);
    v[b] = (v[b] ^ v[c]).rotate_right(12);
    v[a] = v[a].wrapping_add(v[b]).wrapping_add(y);
    v[d] = (v[d] ^ v[a]).rotate_right(8);
    v[c] = v[c].wrapping_add(v[d]);
    v[b] = (v[b] ^ v[c]).rotate_right(7);
}

/// The compression function: 16 output words.
pub fn compress(h: &[u32; 8], block: &[u8; 64], counter: u64, block_len: u32, flags: u32) -> [u32; 16] {
    let mut m = [0u32; 16];
    for i in 0..16 {
        m[i] = u32::from_le_bytes([block[4 * i], block[4 * i + 1], block[4 * i + 2], block[4 * i + 3]]);
    }
    let mut v = [
        h[0], h[1], h[2], h[3], h[4], h[5], h[6], h[7], IV[0], IV[1], IV[2], IV[3],
        counter as u32, (counter >> 32) as u32, block_len, flags,
    ];
    for round in 0..7 {
        g(&mut v, 0, 4, 8, 12, m[0], m[1]);
        g(&mut v, 1, 5, 9, 13, m[2], m[3]);
        g(&mut v, 2, 6, 10, 14, m[4], m[5]);
        g(&mut v, 3, 7, 11, 15, m[6], m[7]);
        g(&mut v, 0, 5, 10, 15, m[8], m[9]);
        g(&mut v, 1, 6, 11, 12, m[10], m[11]);
        g(&mut v, 2, 7, 8, 13, m[12], m[13]);
        g(&mut v, 3, 4, 9, 14, m[14], m[15]);
        if round < 6 {
            let mut p = [0u32; 16];
            for i in 0..16 {
                p[i] = m[PERMUTATION[i]];
            }
            m = p;
        }
    }
    let mut out = [0u32; 16];
    for i in 0..8 {
        out[i] = v[i] ^ v[i + 8];
        out[i + 8] = v[i + 8] ^ h[i];
    }
    out
}

pub fn words_to_bytes(words: &[u32]) -> Vec<u8> {
    let mut out = Vec::with_capacity(words.len() * 4);
    for w in words {
        out.extend_from_slice(&w.to_le_bytes());
    }
    out
}

pub fn bytes_to_words8(bytes: &[u8; 32]) -> [u32; 8] {
    let mut w = [0u32; 8];
    for i in 0..8 {
        w[i] = u32::from_le_bytes([bytes[4 * i], bytes[4 * i + 1], bytes[4 * i + 2], bytes[4 * i + 3]]);
    }
    w
}

pub fn cv_bytes(words: &[u32; 8]) -> [u8; 32] {
    let mut out = [0u8; 32];
    for i in 0..8 {
        out[4 * i..4 * i + 4].copy_from_slice(&words[i].to_le_bytes());
    }
    out
}

/// A tree node just before its last compression: either a chunk's final block or a parent.
#[derive(Clone, Debug, PartialEq, Eq)]
pub struct Node {
    pub h: [u32; 8],
    pub block: [u8; 64],
    pub block_len: u32,
    pub counter: u64,
    pub flags: u32,
}

impl Node {
    /// Non-root chaining value.
    pub fn cv(&self) -> [u32; 8] {
        let o = compress(&self.h, &self.block, self.counter, self.block_len, self.flags);
        [o[0], o[1], o[2], o[3], o[4], o[5], o[6], o[7]]
    }
    pub fn cv_bytes(&self) -> [u8; 32] {
        cv_bytes(&self.cv())
    }
    /// One 64-byte block of root output, with output block counter `k`.
    pub fn root_block(&self, k: u64) -> [u8; 64] {
        let o = compress(&self.h, &self.block, k, self.block_len, self.flags | ROOT);
        let mut out = [0u8; 64];
        for i in 0..16 {
            out[4 * i..4 * i + 4].copy_from_slice(&o[i].to_le_bytes());
        }
        out
    }
    /// Bytes S[seek..seek+len] of the output stream of this node taken as root.
    /// Positions are u128 internally so that windows ending at 2^64-1 do not overflow.
    pub fn root_bytes(&self, seek: u64, len: usize) -> Vec<u8> {
        let mut out = Vec::with_capacity(len);
        let mut pos = seek as u128;
        let end = seek as u128 + len as u128;
        while pos < end {
            let k = (pos / 64) as u64;
            let within = (pos % 64) as usize;
            let blk = self.root_block(k);
            let take = core::cmp::min(64 - within, (end - pos) as usize);
            out.extend_from_slice(&blk[within..within + take]);
            pos += take as u128;
        }
        out
    }
    pub fn root_hash(&self) -> [u8; 32] {
        let b = self.root_block(0);
        let mut out = [0u8; 32];
        out.copy_from_slice(&b[..32]);
        out
    }
}

/// The node of a single chunk (0..=1024 bytes) with the given chunk counter.
pub fn chunk_node(key: &[u32; 8], bytes: &[u8], chunk_counter: u64, flags: u32) -> Node {
    assert!(bytes.len() <= CHUNK);
    // Number of blocks: at least one (the empty chunk has one empty block).
    let nblocks = if bytes.is_empty() { 1 } else { (bytes.len() + BLOCK - 1) / BLOCK };
    let mut h = *key;
    for b in 0..nblocks {
        let lo = b * BLOCK;
        let hi = core::cmp::min(lo + BLOCK, bytes.len());
        let mut block = [0u8; 64];
        block[..hi - lo].copy_from_slice(&bytes[lo..hi]);
        let mut f = flags;
        if b == 0 {
            f |= CHUNK_START;
        }
        if b == nblocks - 1 {
            f |= CHUNK_END;
            return Node { h, block, block_len: (hi - lo) as u32, counter: chunk_counter, flags: f };
        }
        let o = compress(&h, &block, chunk_counter, BLOCK as u32, f);
        h = [o[0], o[1], o[2], o[3], o[4], o[5], o[6], o[7]];
    }
    unreachable!()
}

/// Number of bytes in the left subtree of an input of `len` > 1024 bytes: the largest power of
/// two number of whole chunks that is strictly less than `len` bytes.
pub fn left_len(len: u128) -> u128 {
    assert!(len > CHUNK as u128);
    let mut p: u128 = CHUNK as u128;
    while p * 2 < len {
        p *= 2;
    }
    p
}

pub fn parent_node(key: &[u32; 8], left: &[u32; 8], right: &[u32; 8], flags: u32) -> Node {
    let mut block = [0u8; 64];
    block[..32].copy_from_slice(&cv_bytes(left));
    block[32..].copy_from_slice(&cv_bytes(right));
    Node { h: *key, block, block_len: 64, counter: 0, flags: flags | PARENT }
}

/// The node at the top of the subtree covering `bytes`, whose first chunk has index
/// `first_chunk` (pure recursive definition of section 2.1).
pub fn subtree(key: &[u32; 8], bytes: &[u8], first_chunk: u64, flags: u32) -> Node {
    if bytes.len() <= CHUNK {
        return chunk_node(key, bytes, first_chunk, flags);
    }
    let l = left_len(bytes.len() as u128) as usize;
    let left = subtree(key, &bytes[..l], first_chunk, flags).cv();
    let right = subtree(key, &bytes[l..], first_chunk.wrapping_add((l / CHUNK) as u64), flags).cv();
    parent_node(key, &left, &right, flags)
}

/// The three modes.
#[derive(Clone, Debug, PartialEq, Eq)]
pub enum Mode {
    Hash,
    Keyed([u8; 32]),
    DeriveKey(Vec<u8>),
}

impl Mode {
    /// (key words, flags) used for the input bytes.
    pub fn key_flags(&self) -> ([u32; 8], u32) {
        match self {
            Mode::Hash => (IV, 0),
            Mode::Keyed(k) => (bytes_to_words8(k), KEYED_HASH),
            Mode::DeriveKey(ctx) => {
                let ck = subtree(&IV, ctx, 0, DERIVE_KEY_CONTEXT).root_hash();
                (bytes_to_words8(&ck), DERIVE_KEY_MATERIAL)
            }
        }
    }
    pub fn context_key(ctx: &[u8]) -> [u8; 32] {
        subtree(&IV, ctx, 0, DERIVE_KEY_CONTEXT).root_hash()
    }
}

pub fn root_node(mode: &Mode, input: &[u8]) -> Node {
    let (k, f) = mode.key_flags();
    subtree(&k, input, 0, f)
}

pub fn hash(mode: &Mode, input: &[u8]) -> [u8; 32] {
    root_node(mode, input).root_hash()
}

pub fn xof(mode: &Mode, input: &[u8], seek: u64, len: usize) -> Vec<u8> {
    root_node(mode, input).root_bytes(seek, len)
}

/// Specification of `hash_many` for one input: iterate the compression function over the
/// 64-byte blocks of `input` with `flags_start` on the first and `flags_end` on the last block.
pub fn hash1(key: &[u32; 8], input: &[u8], counter: u64, flags: u32, flags_start: u32, flags_end: u32) -> [u8; 32] {
    assert!(input.len() % 64 == 0 && !input.is_empty());
    let n = input.len() / 64;
    let mut h = *key;
    for b in 0..n {
        let mut block = [0u8; 64];
        block.copy_from_slice(&input[64 * b..64 * b + 64]);
        let mut f = flags;
        if b == 0 {
            f |= flags_start;
        }
        if b == n - 1 {
            f |= flags_end;
        }
        let o = compress(&h, &block, counter, 64, f);
        h = [o[0], o[1], o[2], o[3], o[4], o[5], o[6], o[7]];
    }
    cv_bytes(&h)
}

/// Memoising model of one append-only input stream: caches the chaining values of complete
/// power-of-two subtrees (which never change once their bytes are present), so that "what does
/// the specification say about the bytes absorbed so far" can be asked after every operation of
/// a long history without re-hashing everything. Pure memoisation of `subtree`.
#[derive(Clone)]
pub struct Stream {
    pub key: [u32; 8],
    pub flags: u32,
    pub first_chunk: u64,
    pub bytes: Vec<u8>,
    cache: std::collections::HashMap<(usize, usize), [u32; 8]>,
}

impl Stream {
    pub fn new(mode: &Mode) -> Self {
        let (key, flags) = mode.key_flags();
        Stream { key, flags, first_chunk: 0, bytes: Vec::new(), cache: Default::default() }
    }
    pub fn with_key(key: [u32; 8], flags: u32, first_chunk: u64) -> Self {
        Stream { key, flags, first_chunk, bytes: Vec::new(), cache: Default::default() }
    }
    pub fn push(&mut self, data: &[u8]) {
        self.bytes.extend_from_slice(data);
    }
    pub fn clear(&mut self) {
        self.bytes.clear();
        self.cache.clear();
    }
    fn node(&mut self, start: usize, len: usize) -> Node {
        if len <= CHUNK {
            return chunk_node(&self.key, &self.bytes[start..start + len], self.first_chunk.wrapping_add((start / CHUNK) as u64), self.flags);
        }
        let l = left_len(len as u128) as usize;
        let left = self.cv(start, l);
        let right = self.cv(start + l, len - l);
        parent_node(&self.key, &left, &right, self.flags)
    }
    fn cv(&mut self, start: usize, len: usize) -> [u32; 8] {
        let complete = len >= CHUNK && len % CHUNK == 0 && (len / CHUNK).is_power_of_two();
        if complete {
            if let Some(c) = self.cache.get(&(start, len)) {
                return *c;
            }
        }
        let cv = self.node(start, len).cv();
        if complete {
            self.cache.insert((start, len), cv);
        }
        cv
    }
    pub fn root(&mut self) -> Node {
        let n = self.bytes.len();
        self.node(0, n)
    }
}

fn hex(b: &[u8]) -> String {
    b.iter().map(|x| format!("{:02x}", x)).collect()
}

/// Pin the model to digests known from outside the repository under test.
pub fn selftest() -> Result<(), String> {
    let anchors: [(&[u8], &str); 3] = [
        (b"", "af1349b9f5f9a1a6a0404dea36dcc9499bcb25c9adc112b7cc9a93cae41f3262"),
        (b"abc", "6437b3ac38465133ffb63b75273a8db548c558465d79db03fd359c6cd5bd9d85"),
        (b"hello world", "d74981efa70a0c880b8d8c1985d075dbcbf679b99a5f9914e5aaf96b831a9e24"),
    ];
    for (m, want) in anchors {
        let got = hex(&hash(&Mode::Hash, m));
        if got != want {
            return Err(format!("anchor {:?}: got {} want {}", m, got, want));
        }
    }
    if cfg!(miri) {
        return Ok(()); // the interpreter is ~4 orders of magnitude slower: anchors only
    }
    // Stream memoisation == plain recursion.
    let data: Vec<u8> = (0..70_000u32).map(|i| (i.wrapping_mul(2654435761) >> 13) as u8).collect();
    for &n in &[0usize, 1, 1024, 1025, 2048, 3073, 8192, 31744, 65536, 69999] {
        let mut s = Stream::new(&Mode::Keyed([7; 32]));
        let mut fed = 0;
        while fed < n {
            let k = core::cmp::min(n - fed, 1 + (fed * 7 + 13) % 5000);
            s.push(&data[fed..fed + k]);
            fed += k;
            let _ = s.root();
        }
        if s.root() != root_node(&Mode::Keyed([7; 32]), &data[..n]) {
            return Err(format!("stream memoisation mismatch at n={}", n));
        }
    }
    Ok(())
}
