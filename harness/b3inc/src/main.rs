//! b3mon: in-process monitors for the b3sum checkfile format (C13). The private functions of
//! the real `b3sum/src/main.rs` are reached by `include!`-ing the unmodified source into a module
//! and adding thin public wrappers inside that module.
//!
//!   b3mon lines  --seed S --tier T --out FILE     mutation / random-line sweep vs the reference parser
//!   b3mon paths  --seed S --tier T --out FILE     round trip + injectivity over hostile path bytes
//!   b3mon parse-stdin                             print the parse result of every stdin line (used by the CLI monitor)
use monlib::{guarded, hex, Json, Report, Rng};
use std::ffi::OsString;
use std::os::unix::ffi::{OsStrExt, OsStringExt};
use std::path::Path;

mod b3 {
    include!("/repo/b3sum/src/main.rs");

    pub struct VParsed {
        pub file_string: String,
        pub is_escaped: bool,
        pub path_bytes: Vec<u8>,
        pub hash: [u8; 32],
    }
    pub fn v_parse(line: &str) -> Result<VParsed, String> {
        use std::os::unix::ffi::OsStrExt;
        match parse_check_line(line) {
            Ok(p) => Ok(VParsed { file_string: p.file_string, is_escaped: p.is_escaped, path_bytes: p.file_path.as_os_str().as_bytes().to_vec(), hash: *p.expected_hash.as_bytes() }),
            Err(e) => Err(e.to_string()),
        }
    }
    pub fn v_filepath_to_string(p: &std::path::Path) -> (String, bool) {
        let f = filepath_to_string(p);
        (f.filepath_string, f.is_escaped)
    }
    pub fn v_unescape(s: &str) -> Result<String, String> {
        unescape(s).map_err(|e| e.to_string())
    }
}

// ------------------------------------------------------------------------------------------------
// Existential reference parser, written from b3sum/what_does_check_do.md
// ------------------------------------------------------------------------------------------------
fn lower_hex64(s: &str) -> Option<[u8; 32]> {
    let b = s.as_bytes();
    if b.len() != 64 {
        return None;
    }
    let mut out = [0u8; 32];
    for i in 0..32 {
        let hv = |c: u8| -> Option<u8> {
            match c {
                b'0'..=b'9' => Some(c - b'0'),
                b'a'..=b'f' => Some(c - b'a' + 10),
                _ => None,
            }
        };
        out[i] = 16 * hv(b[2 * i])? + hv(b[2 * i + 1])?;
    }
    Some(out)
}

fn ref_unescape(f: &str) -> Option<String> {
    let mut out = String::new();
    let mut it = f.chars();
    while let Some(c) = it.next() {
        if c == '\\' {
            match it.next() {
                Some('n') => out.push('\n'),
                Some('r') => out.push('\r'),
                Some('\\') => out.push('\\'),
                _ => return None,
            }
        } else {
            out.push(c);
        }
    }
    Some(out)
}

/// Every (path, hash, escaped) the documented format allows this line to mean.
fn legal(line: &str) -> Vec<(String, [u8; 32], bool)> {
    let mut res = Vec::new();
    let trailing = line.chars().rev().take_while(|c| *c == '\r' || *c == '\n').count();
    for k in 0..=trailing {
        let s = &line[..line.len() - k]; // CR and LF are one byte each
        if s.is_empty() {
            continue;
        }
        let (esc, rest) = if let Some(r) = s.strip_prefix('\\') { (true, r) } else { (false, s) };
        let mut add = |f: &str, h: [u8; 32]| {
            if f.is_empty() {
                return;
            }
            let path = if esc {
                match ref_unescape(f) {
                    Some(p) => p,
                    None => return,
                }
            } else {
                f.to_string()
            };
            if path.is_empty() || path.contains('\0') || path.contains('\u{FFFD}') {
                return;
            }
            res.push((path, h, esc));
        };
        // plain: <64 lowercase hex><two spaces><file>
        if rest.len() >= 66 && rest.is_char_boundary(64) && rest.is_char_boundary(66) {
            if let Some(h) = lower_hex64(&rest[..64]) {
                if &rest[64..66] == "  " {
                    add(&rest[66..], h);
                }
            }
        }
        // tagged: BLAKE3 (<file>) = <64 lowercase hex>
        if rest.starts_with("BLAKE3 (") && rest.len() >= 8 + 4 + 64 && rest.is_char_boundary(rest.len() - 64) {
            let (head, hx) = rest.split_at(rest.len() - 64);
            if let Some(h) = lower_hex64(hx) {
                if head.ends_with(") = ") && head.len() >= 8 + 4 {
                    add(&head[8..head.len() - 4], h);
                }
            }
        }
    }
    res
}

fn check_line(line: &str, rep: &mut Report, replay: &dyn Fn() -> Vec<String>) {
    let legal_set = legal(line);
    rep.evaluations += 1;
    match guarded(|| b3::v_parse(line)) {
        Err(p) => rep.violation("C13/parse/panic", format!("parse_check_line panicked on {:?}: {}", line, p), replay()),
        Ok(Ok(r)) => {
            let path = String::from_utf8_lossy(&r.path_bytes).to_string();
            if !legal_set.iter().any(|(p, h, e)| *p == path && *h == r.hash && *e == r.is_escaped) {
                let class = if legal_set.is_empty() { "accepted-line-without-valid-decomposition" } else { "wrong-decomposition" };
                rep.violation(format!("C13/parse/{}", class), format!("line {:?} parsed to path {:?} hash {} escaped={} but the format allows only {:?}", line, path, hex(&r.hash), r.is_escaped, legal_set.iter().map(|(p, h, e)| (p.clone(), hex(&h[..4]), *e)).collect::<Vec<_>>()), replay());
            }
            rep.count("lines_accepted", 1);
        }
        Ok(Err(_)) => {
            rep.count("lines_rejected", 1);
            if !legal_set.is_empty() {
                rep.count("rejected_though_a_decomposition_exists_(not_asserted_here)", 1);
            }
        }
    }
}

const ALPHABET: [&str; 32] = [
    " ", "\\", "n", "r", "\r", "\n", "\0", ")", "(", "=", "é", "否", "😀", "\u{FFFD}", "A", "g", "0", "f", "+", "-", "_", "\t", "x", ".",
    // line and paragraph separators other than CR/LF, other Unicode white space, a control character
    "\u{85}", "\u{2028}", "\u{2029}", "\u{A0}", "\u{3000}", "\u{FEFF}", "\u{B}", "\u{1}",
];

fn base_lines(rng: &mut Rng) -> Vec<String> {
    let h = hex(&rng.array32());
    let paths = ["file.txt", "a  b", "x) = y", "BLAKE3 (z", "dir/sub dir/ñ", " lead", "trail ", "q"];
    let mut v = Vec::new();
    for p in paths {
        for nl in ["\n", "\r\n", ""] {
            v.push(format!("{}  {}{}", h, p, nl));
            v.push(format!("BLAKE3 ({}) = {}{}", p, h, nl));
        }
    }
    for p in ["back\\\\slash", "new\\nline", "cr\\rcr", "mix\\\\\\n  x"] {
        v.push(format!("\\{}  {}\n", h, p));
        v.push(format!("\\BLAKE3 ({}) = {}\r\n", p, h));
    }
    v
}

fn run_lines(seed: u64, thorough: bool, scale: f64) -> Report {
    let mut rng0 = Rng::new(seed, 0x1313);
    let bases = base_lines(&mut rng0);
    // work list: (base index, char position index) pairs; every mutation kind x alphabet at each
    let mut jobs: Vec<(usize, usize)> = Vec::new();
    for (bi, b) in bases.iter().enumerate() {
        let nchars = b.chars().count();
        for pos in 0..=nchars {
            jobs.push((bi, pos));
        }
    }
    let n_random = ((if thorough { 4_000_000.0 } else { 150_000.0 }) * scale) as u64;
    let threads = 16usize;
    let mut merged = Report::new();
    let reports: Vec<Report> = std::thread::scope(|s| {
        let hs: Vec<_> = (0..threads)
            .map(|t| {
                let bases = &bases;
                let jobs = &jobs;
                s.spawn(move || {
                    let mut rep = Report::new();
                    // (a) all single-character mutations at every position
                    let mut k = t;
                    while k < jobs.len() {
                        let (bi, pos) = jobs[k];
                        let chars: Vec<char> = bases[bi].chars().collect();
                        let replay = || vec!["lines".to_string()];
                        if pos < chars.len() {
                            let del: String = chars[..pos].iter().chain(chars[pos + 1..].iter()).collect();
                            check_line(&del, &mut rep, &replay);
                        }
                        for a in ALPHABET {
                            let ins: String = chars[..pos].iter().collect::<String>() + a + &chars[pos..].iter().collect::<String>();
                            check_line(&ins, &mut rep, &replay);
                            if pos < chars.len() {
                                let repl: String = chars[..pos].iter().collect::<String>() + a + &chars[pos + 1..].iter().collect::<String>();
                                check_line(&repl, &mut rep, &replay);
                            }
                        }
                        // byte-length-preserving substitutions: a multi-byte character replacing as
                        // many characters as it has bytes (keeps a 64-byte hash field 64 bytes long)
                        for a in ["é", "否", "😀", "\u{FFFD}"] {
                            let w = a.len();
                            if pos + w <= chars.len() {
                                let sub: String = chars[..pos].iter().collect::<String>() + a + &chars[pos + w..].iter().collect::<String>();
                                check_line(&sub, &mut rep, &replay);
                            }
                        }
                        rep.distinct.insert(format!("mut/{}/{}", bi, pos));
                        k += threads;
                    }
                    // (b) random strings over the hostile alphabet + hex digits
                    let mut idx = t as u64;
                    while idx < n_random {
                        let mut rng = Rng::new(seed, 0x2000_0000 + idx);
                        let line = random_line(&mut rng);
                        check_line(&line, &mut rep, &|| vec!["lines".to_string(), "--only".to_string(), idx.to_string()]);
                        if idx % 64 == 0 {
                            rep.distinct.insert(format!("rnd/{}", idx));
                        }
                        if idx % 40_009 == 0 {
                            rep.sample(Json::obj(vec![("kind", Json::s("random line")), ("line", Json::s(line.clone())), ("legal_decompositions", Json::u(legal(&line).len()))]));
                        }
                        idx += threads as u64;
                    }
                    rep
                })
            })
            .collect();
        hs.into_iter().map(|h| h.join().unwrap()).collect()
    });
    for r in reports {
        merged.merge(r);
    }
    merged.sample(Json::obj(vec![("kind", Json::s("mutation bases")), ("bases", Json::u(bases.len())), ("positions", Json::u(jobs.len())), ("alphabet", Json::u(ALPHABET.len()))]));
    merged
}

fn random_line(rng: &mut Rng) -> String {
    let mut s = String::new();
    // start from a plausible skeleton half of the time, then splice garbage
    match rng.below(4) {
        0 => {
            s.push_str(&hex(&rng.array32()));
            s.push_str("  ");
        }
        1 => s.push_str("BLAKE3 ("),
        2 => {
            s.push('\\');
            s.push_str(&hex(&rng.array32()));
            s.push_str("  ");
        }
        _ => {}
    }
    let n = rng.usize_below(40);
    for _ in 0..n {
        if rng.chance(1, 3) {
            s.push_str(ALPHABET[rng.usize_below(ALPHABET.len())]);
        } else {
            s.push((b'a' + rng.below(26) as u8) as char);
        }
    }
    if rng.chance(1, 3) {
        s.push_str(") = ");
        s.push_str(&hex(&rng.array32()));
    }
    match rng.below(4) {
        0 => s.push('\n'),
        1 => s.push_str("\r\n"),
        2 => s.push_str("\n\n\r"),
        _ => {}
    }
    s
}

// ------------------------------------------------------------------------------------------------
// Round trip + injectivity over hostile path byte strings
// ------------------------------------------------------------------------------------------------
fn hostile_path(rng: &mut Rng) -> Vec<u8> {
    const PIECES: [&[u8]; 30] = [
        b" ", b"  ", b") = ", b"BLAKE3 (", b"\\", b"\\\\", b"\r", b"\n", b"\\n", b"\\r", b"a", b"b", b"/", b"dir", b"\xC3\xA9", b"\xE5\x90\xA6", b"\xF0\x9F\x98\x80", b"\xFF", b"\xC3", b"\xEF\xBF\xBD", b"=", b"(x)",
        // U+0085, U+2028, U+2029, U+00A0, U+3000, U+FEFF, VT, SOH (anywhere, in particular last)
        b"\xC2\x85", b"\xE2\x80\xA8", b"\xE2\x80\xA9", b"\xC2\xA0", b"\xE3\x80\x80", b"\xEF\xBB\xBF", b"\x0B", b"\x01",
    ];
    let n = 1 + rng.usize_below(8);
    let mut v = Vec::new();
    for _ in 0..n {
        v.extend_from_slice(PIECES[rng.usize_below(PIECES.len())]);
    }
    v
}

fn representable(path: &[u8]) -> bool {
    match std::str::from_utf8(path) {
        Ok(s) => !s.contains('\u{FFFD}') && !s.contains('\0'),
        Err(_) => false,
    }
}

fn run_paths(seed: u64, thorough: bool, scale: f64) -> Report {
    let total = ((if thorough { 3_000_000.0 } else { 120_000.0 }) * scale) as u64;
    let threads = 16u64;
    let mut merged = Report::new();
    let results: Vec<(Report, Vec<(Vec<u8>, Vec<u8>)>)> = std::thread::scope(|s| {
        let hs: Vec<_> = (0..threads)
            .map(|t| {
                s.spawn(move || {
                    let mut rep = Report::new();
                    let mut parsed: Vec<(Vec<u8>, Vec<u8>)> = Vec::new(); // (parsed path, original path)
                    let mut idx = t;
                    while idx < total {
                        let mut rng = Rng::new(seed, 0x3000_0000 + idx);
                        let path = hostile_path(&mut rng);
                        let hash = rng.array32();
                        let tag = rng.chance(1, 2);
                        let nl = ["\n", "\r\n", ""][rng.usize_below(3)];
                        let os = OsString::from_vec(path.clone());
                        let (fstr, esc) = match guarded(|| b3::v_filepath_to_string(Path::new(&os))) {
                            Ok(x) => x,
                            Err(p) => {
                                rep.violation("C13/filepath_to_string/panic", format!("path {:?}: {}", String::from_utf8_lossy(&path), p), vec!["paths".into(), "--only".into(), idx.to_string()]);
                                idx += threads;
                                continue;
                            }
                        };
                        // exactly what hash_one_input prints
                        let mut line = String::new();
                        if esc {
                            line.push('\\');
                        }
                        if tag {
                            line.push_str(&format!("BLAKE3 ({}) = {}", fstr, hex(&hash)));
                        } else {
                            line.push_str(&format!("{}  {}", hex(&hash), fstr));
                        }
                        line.push_str(nl);
                        rep.evaluations += 1;
                        let rp = representable(&path);
                        let form = if tag { "tag" } else { "plain" };
                        if idx % 16 == 0 {
                            rep.distinct.insert(format!("{}/{}/{}", form, esc, hex(&path)));
                        }
                        let feature = if path.windows(2).any(|w| w == b"  ") { "path-contains-two-spaces" } else if path.windows(4).any(|w| w == b") = ") { "path-contains-paren-eq" } else if path.starts_with(b"BLAKE3 (") { "path-starts-with-tag-prefix" } else { "other" };
                        rep.seen("path_features", format!("{}/{}/{}", form, feature, if rp { "representable" } else { "unrepresentable" }));
                        match guarded(|| b3::v_parse(&line)) {
                            Err(p) => rep.violation(format!("C13/roundtrip/{}/panic", form), format!("line {:?}: {}", line, p), vec!["paths".into(), "--only".into(), idx.to_string()]),
                            Ok(Ok(r)) => {
                                if !rp {
                                    rep.violation(format!("C13/roundtrip/{}/unrepresentable-accepted", form), format!("path bytes {} cannot be represented, but its line {:?} was accepted as {:?}", hex(&path), line, String::from_utf8_lossy(&r.path_bytes)), vec!["paths".into(), "--only".into(), idx.to_string()]);
                                } else if r.path_bytes != path || r.hash != hash {
                                    rep.violation(format!("C13/roundtrip/{}/{}/wrong-result", form, feature), format!("path {:?} printed as {:?} parsed back to {:?} / {}", String::from_utf8_lossy(&path), line, String::from_utf8_lossy(&r.path_bytes), hex(&r.hash[..4])), vec!["paths".into(), "--only".into(), idx.to_string()]);
                                }
                                parsed.push((r.path_bytes, path.clone()));
                            }
                            Ok(Err(e)) => {
                                if rp {
                                    rep.violation(format!("C13/roundtrip/{}/{}/rejected", form, feature), format!("path {:?} printed as {:?} is rejected by --check: {}", String::from_utf8_lossy(&path), line, e), vec!["paths".into(), "--only".into(), idx.to_string()]);
                                }
                            }
                        }
                        if idx % 30_011 == 0 {
                            rep.sample(Json::obj(vec![("kind", Json::s("path round trip")), ("path_bytes", Json::s(hex(&path))), ("line", Json::s(line.clone())), ("representable", Json::Bool(rp))]));
                        }
                        idx += threads;
                    }
                    (rep, parsed)
                })
            })
            .collect();
        hs.into_iter().map(|h| h.join().unwrap()).collect()
    });
    // injectivity over the whole generated set
    let mut seen: std::collections::HashMap<Vec<u8>, Vec<u8>> = std::collections::HashMap::new();
    for (rep, parsed) in results {
        merged.merge(rep);
        for (pp, orig) in parsed {
            if let Some(o) = seen.get(&pp) {
                if *o != orig {
                    merged.violation("C13/injectivity", format!("two different paths {:?} and {:?} yield lines that parse to the same path {:?}", String::from_utf8_lossy(o), String::from_utf8_lossy(&orig), String::from_utf8_lossy(&pp)), vec!["paths".into()]);
                }
            } else {
                seen.insert(pp, orig);
            }
        }
    }
    merged.count("distinct_parsed_paths", seen.len() as u64);
    merged
}

fn main() {
    let argv: Vec<String> = std::env::args().skip(1).collect();
    monlib::quiet_panics();
    let what = argv.get(0).cloned().unwrap_or_default();
    let mut seed = 1u64;
    let mut thorough = false;
    let mut out: Option<String> = None;
    let mut scale = 1.0f64;
    let mut only: Option<u64> = None;
    let mut i = 1;
    while i + 1 < argv.len() {
        match argv[i].as_str() {
            "--seed" => seed = argv[i + 1].parse().unwrap(),
            "--tier" => thorough = argv[i + 1] == "thorough",
            "--out" => out = Some(argv[i + 1].clone()),
            "--scale" => scale = argv[i + 1].parse().unwrap(),
            "--only" => only = argv[i + 1].parse().ok(),
            _ => {}
        }
        i += 2;
    }
    let (rep, rule) = match what.as_str() {
        "lines" => {
            if let Some(idx) = only {
                let mut rep = Report::new();
                let mut rng = Rng::new(seed, 0x2000_0000 + idx);
                let line = random_line(&mut rng);
                check_line(&line, &mut rep, &|| vec![]);
                (rep, "replay of one random line")
            } else {
                (run_lines(seed, thorough, scale), "every single-character mutation (delete / insert / replace with each of 18 hostile characters) at every position of valid plain, tagged, escaped, LF/CRLF lines + seeded random lines; each parse result must be one of the decompositions the documented format allows (existential reference parser), never a panic; distinct = distinct (base line, position) pairs and sampled random lines")
            }
        }
        "paths" => (run_paths(seed, thorough, scale), "hostile OS path byte strings printed exactly as b3sum prints them (plain / --tag, escaped or not, LF / CRLF / none) and parsed back: representable paths must return the same bytes and hash, unrepresentable ones must be rejected, no two paths may collide; distinct = distinct (form, escaped, path bytes)"),
        "parse-stdin" => {
            use std::io::BufRead;
            let stdin = std::io::stdin();
            for line in stdin.lock().split(b'\n') {
                let mut l = line.unwrap();
                l.push(b'\n');
                match String::from_utf8(l) {
                    Ok(s) => match guarded(|| b3::v_parse(&s)) {
                        Ok(Ok(r)) => println!("OK {} {} {}", hex(&r.path_bytes), hex(&r.hash), r.is_escaped),
                        Ok(Err(e)) => println!("ERR {}", e),
                        Err(p) => println!("PANIC {}", p),
                    },
                    Err(_) => println!("NONUTF8"),
                }
            }
            return;
        }
        _ => {
            eprintln!("usage: b3mon lines|paths|parse-stdin");
            std::process::exit(2);
        }
    };
    let j = rep.to_json(&what, rule).to_string();
    match out {
        Some(p) => std::fs::write(p, j).unwrap(),
        None => println!("{}", j),
    }
    let _ = (OsString::new(), b3::v_unescape("x"));
    let _ = std::ffi::OsStr::from_bytes(b"");
}
