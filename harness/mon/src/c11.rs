//! C11: reader, mmap and Write adapters hash exactly the bytes of their source.
//! Fault injection at the `Read` boundary (short reads, Interrupted, hard errors, early EOF) with
//! a model of the script as oracle; file lattice around the 16 KiB mapping threshold with
//! three-way agreement update_mmap / update_mmap_rayon / update_reader(File) + specmodel; special
//! paths (/proc, /dev/null, FIFO, directory, missing, symlink).
use crate::api;
use crate::plat::{self, P};
use crate::run::{self, Args};
use monlib::{gen, guarded, hex, Json, Report, Rng};
use specmodel::Stream;
use std::io::{self, ErrorKind, Read};

#[derive(Clone, Debug)]
enum Step {
    Data(usize),
    Interrupted,
    Hard(ErrorKind),
    Eof,
}

struct ScriptReader<'a> {
    steps: &'a [Step],
    pos: usize,
    src: &'a [u8],
    off: usize,
    /// bytes actually handed out (the model of what the hasher must have absorbed)
    yielded: Vec<u8>,
    reads: usize,
    max_buf_seen: usize,
}

impl<'a> Read for ScriptReader<'a> {
    fn read(&mut self, buf: &mut [u8]) -> io::Result<usize> {
        self.reads += 1;
        self.max_buf_seen = self.max_buf_seen.max(buf.len());
        let step = self.steps.get(self.pos).cloned().unwrap_or(Step::Eof);
        self.pos += 1;
        match step {
            Step::Data(k) => {
                let k = k.min(buf.len()).min(self.src.len() - self.off);
                if k == 0 {
                    // never return Ok(0) by accident in the middle: treat as EOF marker
                    return Ok(0);
                }
                buf[..k].copy_from_slice(&self.src[self.off..self.off + k]);
                self.yielded.extend_from_slice(&self.src[self.off..self.off + k]);
                self.off += k;
                Ok(k)
            }
            Step::Interrupted => Err(io::Error::new(ErrorKind::Interrupted, "injected EINTR")),
            Step::Hard(kind) => Err(io::Error::new(kind, "injected hard error")),
            Step::Eof => Ok(0),
        }
    }
}

const HARD: [ErrorKind; 5] = [ErrorKind::Other, ErrorKind::UnexpectedEof, ErrorKind::WouldBlock, ErrorKind::TimedOut, ErrorKind::PermissionDenied];
const SIZES: [usize; 12] = [1, 7, 63, 64, 65, 1023, 1024, 4096, 16384, 65535, 65536, 70000];

fn gen_script(rng: &mut Rng, budget: usize) -> Vec<Step> {
    let mut steps = Vec::new();
    let n = 1 + rng.usize_below(14);
    let mut total = 0usize;
    for _ in 0..n {
        match rng.below(10) {
            0 | 1 => steps.push(Step::Interrupted),
            2 if rng.chance(1, 2) => {
                // a burst of EINTRs
                for _ in 0..1 + rng.below(4) {
                    steps.push(Step::Interrupted);
                }
            }
            _ => {
                let k = if rng.chance(1, 3) { gen::hostile_len(rng, 70000).max(1) } else { *rng.pick(&SIZES) };
                if total + k <= budget {
                    total += k.min(65536);
                    steps.push(Step::Data(k));
                }
            }
        }
    }
    match rng.below(4) {
        0 => steps.push(Step::Hard(*rng.pick(&HARD))),
        _ => steps.push(Step::Eof),
    }
    // steps after the terminator must never be consumed
    steps.push(Step::Data(100));
    steps
}

fn reader_case(args: &Args, idx: u64, p: P, rng: &mut Rng, rep: &mut Report) {
    let mode = gen::mode(rng);
    let budget = if rng.chance(1, 20) { 1 << 20 } else { 200 * 1024 };
    let src = gen::content(rng, budget + 70000);
    let steps = gen_script(rng, budget);
    let prefix_len = gen::hostile_len(rng, 3000);
    let prefix = rng.bytes(prefix_len);
    let by_ref = rng.chance(1, 2);
    let mut h = api::hasher_for(&mode);
    let mut m = Stream::new(&mode);
    h.update(&prefix);
    m.push(&prefix);
    let mut rd = ScriptReader { steps: &steps, pos: 0, src: &src, off: 0, yielded: Vec::new(), reads: 0, max_buf_seen: 0 };
    let r = guarded(|| if by_ref { h.update_reader(&mut rd).map(|_| ()) } else { h.update_reader(&mut rd as &mut dyn Read).map(|_| ()) });
    // what the script says must have happened
    let mut expect_err: Option<ErrorKind> = None;
    let mut consumed = 0;
    for (i, s) in steps.iter().enumerate() {
        consumed = i + 1;
        match s {
            Step::Hard(k) => {
                expect_err = Some(*k);
                break;
            }
            Step::Eof => break,
            Step::Data(k) if *k == 0 => break,
            _ => {}
        }
    }
    let desc = format!("mode={} prefix={} steps={:?}", gen::mode_name(&mode), prefix_len, &steps[..steps.len() - 1]);
    rep.eval(format!("reader/{}/{:x}", p.name(), { let mut f = monlib::Fnv::new(); f.add(desc.as_bytes()); f.0 }));
    rep.count("reader_calls", rd.reads as u64);
    rep.count("interrupted_injected", steps[..consumed].iter().filter(|s| matches!(s, Step::Interrupted)).count() as u64);
    if expect_err.is_some() {
        rep.count("hard_errors_injected", 1);
    }
    rep.seen("read_buffer_sizes", rd.max_buf_seen.to_string());
    let viol = |rep: &mut Report, class: &str, d: String| rep.violation(format!("C11/update_reader/{}", class), format!("{} | {} | platform={}", d, desc, p.name()), args.replay_args(idx, p));
    match r {
        Err(msg) => return viol(rep, "panic", format!("update_reader panicked: {}", msg)),
        Ok(res) => {
            match (&res, expect_err) {
                (Ok(()), None) => {}
                (Err(e), Some(k)) if e.kind() == k => {}
                (Ok(()), Some(k)) => return viol(rep, "error-swallowed", format!("the reader failed with {:?} but update_reader returned Ok", k)),
                (Err(e), None) => return viol(rep, "spurious-error", format!("update_reader returned {:?} although the reader reached EOF", e.kind())),
                (Err(e), Some(k)) => return viol(rep, "wrong-error", format!("update_reader returned {:?}, the reader failed with {:?}", e.kind(), k)),
            }
            if rd.pos != consumed {
                return viol(rep, "read-after-terminator", format!("the reader was polled {} times, the script terminates after {} steps", rd.pos, consumed));
            }
        }
    }
    m.push(&rd.yielded);
    let want = m.root().root_hash();
    match guarded(|| (h.count(), *h.finalize().as_bytes())) {
        Ok((c, got)) => {
            if c != m.bytes.len() as u64 {
                viol(rep, "count", format!("count()={} but prefix+yielded = {} bytes", c, m.bytes.len()));
            } else if got != want {
                viol(rep, "mismatch", format!("hash after update_reader = {} want {} ({} bytes yielded{})", hex(&got), hex(&want), rd.yielded.len(), if expect_err.is_some() { ", then a hard error" } else { "" }));
            }
        }
        Err(msg) => viol(rep, "panic", format!("finalize after update_reader panicked: {}", msg)),
    }
    // the hasher stays usable after an error: feed a suffix
    let suffix_len = gen::hostile_len(rng, 2000);
    let suffix = rng.bytes(suffix_len);
    m.push(&suffix);
    let want2 = m.root().root_hash();
    match guarded(|| {
        h.update(&suffix);
        *h.finalize().as_bytes()
    }) {
        Ok(got) if got == want2 => {}
        Ok(_) => viol(rep, "mismatch-after", "hash of prefix+yielded+suffix differs from the specification".into()),
        Err(msg) => viol(rep, "panic", format!("update after update_reader panicked: {}", msg)),
    }
    if idx % 701 == 0 {
        rep.sample(Json::obj(vec![("kind", Json::s("reader-script")), ("desc", Json::s(desc)), ("yielded", Json::u(rd.yielded.len()))]));
    }
}

fn scratch() -> std::path::PathBuf {
    let d = std::env::temp_dir().join(format!("verif-c11-{}", std::process::id()));
    let _ = std::fs::create_dir_all(&d);
    d
}

#[cfg(feature = "full")]
fn three_way(path: &std::path::Path, mode: &specmodel::Mode) -> (Result<[u8; 32], String>, Result<[u8; 32], String>, Result<[u8; 32], String>) {
    let a = guarded(|| {
        let mut h = api::hasher_for(mode);
        h.update_mmap(path).map(|h| *h.finalize().as_bytes()).map_err(|e| format!("{:?}", e.kind()))
    })
    .unwrap_or_else(|m| Err(format!("panic: {}", m)));
    let b = guarded(|| {
        let mut h = api::hasher_for(mode);
        h.update_mmap_rayon(path).map(|h| *h.finalize().as_bytes()).map_err(|e| format!("{:?}", e.kind()))
    })
    .unwrap_or_else(|m| Err(format!("panic: {}", m)));
    let c = guarded(|| {
        let mut h = api::hasher_for(mode);
        match std::fs::File::open(path) {
            Ok(f) => h.update_reader(f).map(|h| *h.finalize().as_bytes()).map_err(|e| format!("{:?}", e.kind())),
            Err(e) => Err(format!("{:?}", e.kind())),
        }
    })
    .unwrap_or_else(|m| Err(format!("panic: {}", m)));
    (a, b, c)
}

#[cfg(feature = "full")]
fn file_cases(args: &Args, rep: &mut Report) {
    let dir = scratch();
    let mut rng = Rng::new(args.seed, 0xF11E);
    let mut lens: Vec<usize> = vec![0, 1, 4095, 4096, 16382, 16383, 16384, 16385, 16384 + 4095, 16384 + 4096, 32767, 32768, 65535, 65536, 65537, (1 << 20) + 3];
    for _ in 0..args.n(24, 200) {
        lens.push(match rng.below(3) {
            0 => 16384 - 40 + rng.usize_below(80),
            1 => rng.usize_below(70000),
            _ => rng.usize_below(3 << 20),
        });
    }
    if args.thorough {
        lens.push(256 << 20);
        lens.push((64 << 20) + 1);
    }
    for (i, &n) in lens.iter().enumerate() {
        let mode = gen::mode(&mut rng);
        let data = gen::content(&mut rng, n);
        let path = dir.join(format!("f{}", i));
        std::fs::write(&path, &data).expect("scratch write");
        let want = specmodel::hash(&mode, &std::fs::read(&path).expect("scratch read"));
        let (a, b, c) = three_way(&path, &mode);
        rep.eval(format!("file/{}", n));
        rep.seen("file_size_classes", if n >= 16384 { ">=16KiB (mmap expected)" } else { "<16KiB (read fallback expected)" });
        for (name, r) in [("update_mmap", &a), ("update_mmap_rayon", &b), ("update_reader(File)", &c)] {
            match r {
                Ok(h) if *h == want => {}
                Ok(h) => rep.violation(format!("C11/file/{}/mismatch", name), format!("{} on a {}-byte file = {} but the file's bytes hash to {} (mode {})", name, n, hex(h), hex(&want), gen::mode_name(&mode)), vec!["c11".into(), "--files-only".into(), "1".into()]),
                Err(e) => rep.violation(format!("C11/file/{}/error", name), format!("{} on a regular {}-byte file failed: {}", name, n, e), vec!["c11".into(), "--files-only".into(), "1".into()]),
            }
        }
        let _ = std::fs::remove_file(&path);
        if i % 9 == 0 {
            rep.sample(Json::obj(vec![("kind", Json::s("file")), ("len", Json::u(n)), ("mode", Json::s(gen::mode_name(&mode)))]));
        }
    }
    // ---- special paths --------------------------------------------------------------------
    let mode = specmodel::Mode::Hash;
    // symlink to a mappable file
    let target = dir.join("target");
    let data = rng.bytes(40000);
    std::fs::write(&target, &data).unwrap();
    let link = dir.join("link");
    let _ = std::os::unix::fs::symlink(&target, &link);
    let (a, b, c) = three_way(&link, &mode);
    let want = specmodel::hash(&mode, &data);
    rep.eval("special/symlink");
    if a != Ok(want) || b != Ok(want) || c != Ok(want) {
        rep.violation("C11/special/symlink", format!("through a symlink: mmap={:?} mmap_rayon={:?} reader={:?}", a.map(|h| hex(&h)), b.map(|h| hex(&h)), c.map(|h| hex(&h))), vec![]);
    }
    // /dev/null: empty input
    let (a, b, c) = three_way(std::path::Path::new("/dev/null"), &mode);
    let want = specmodel::hash(&mode, b"");
    rep.eval("special/dev-null");
    if a != Ok(want) || b != Ok(want) || c != Ok(want) {
        rep.violation("C11/special/dev-null", format!("/dev/null: mmap={:?} mmap_rayon={:?} reader={:?}", a, b, c), vec![]);
    }
    // /proc files (size 0 in stat, content through read): only asserted if two std reads agree
    for pth in ["/proc/version", "/proc/cpuinfo", "/proc/self/cmdline", "/proc/filesystems"] {
        let r1 = std::fs::read(pth);
        let (a, b, c) = three_way(std::path::Path::new(pth), &mode);
        let r2 = std::fs::read(pth);
        if let (Ok(x), Ok(y)) = (&r1, &r2) {
            if x == y {
                let want = specmodel::hash(&mode, x);
                rep.eval(format!("special/{}", pth));
                if a != Ok(want) || b != Ok(want) || c != Ok(want) {
                    rep.violation("C11/special/proc", format!("{} ({} bytes): mmap={:?} mmap_rayon={:?} reader={:?} want {}", pth, x.len(), a.map(|h| hex(&h)), b.map(|h| hex(&h)), c.map(|h| hex(&h)), hex(&want)), vec![]);
                }
            } else {
                rep.inconclusive.push(format!("{} changed between two reads; not asserted", pth));
            }
        }
    }
    // a seekable file >= 16 KiB whose mmap() fails (sysfs): the fallback must read from the start
    match crate::hist::unmappable_file() {
        Some((path, bytes)) => {
            let (a, b, c) = three_way(path, &mode);
            let want = specmodel::hash(&mode, bytes);
            rep.eval(format!("special/unmappable/{}", bytes.len()));
            rep.seen("unmappable_file", format!("{} ({} bytes)", path.display(), bytes.len()));
            if a != Ok(want) || b != Ok(want) || c != Ok(want) {
                rep.violation("C11/special/unmappable-file", format!("{} ({} bytes, seekable, mmap fails): mmap={:?} mmap_rayon={:?} reader={:?} want {}", path.display(), bytes.len(), a.map(|h| hex(&h)), b.map(|h| hex(&h)), c.map(|h| hex(&h)), hex(&want)), vec![]);
            }
        }
        None => rep.inconclusive.push("no seekable-but-unmappable file found on this system; that fallback path was not exercised".into()),
    }
    // directory: every entry point must report an error (never Ok, never a panic)
    let (a, b, c) = three_way(&dir, &mode);
    rep.eval("special/directory");
    for (name, r) in [("update_mmap", &a), ("update_mmap_rayon", &b), ("update_reader(File)", &c)] {
        match r {
            Err(e) if !e.starts_with("panic") => {}
            other => rep.violation("C11/special/directory", format!("{} on a directory returned {:?}", name, other.as_ref().map(|h| hex(h))), vec![]),
        }
    }
    // missing file: NotFound from both mmap entry points
    let (a, b, _c) = three_way(&dir.join("does-not-exist"), &mode);
    rep.eval("special/missing");
    if a != Err("NotFound".to_string()) || b != Err("NotFound".to_string()) {
        rep.violation("C11/special/missing", format!("missing file: mmap={:?} mmap_rayon={:?}", a, b), vec![]);
    }
    // FIFO fed by a writer thread: unseekable, must fall back to reads and hash exactly the bytes written
    for (k, rayon) in [(0, false), (1, true)] {
        let fifo = dir.join(format!("fifo{}", k));
        let c = std::ffi::CString::new(fifo.to_str().unwrap()).unwrap();
        if unsafe { libc::mkfifo(c.as_ptr(), 0o600) } != 0 {
            rep.inconclusive.push("mkfifo failed; FIFO case skipped".into());
            continue;
        }
        let plen = 100_000 + rng.usize_below(100_000);
        let payload = rng.bytes(plen);
        let want = specmodel::hash(&mode, &payload);
        let fifo2 = fifo.clone();
        let pl = payload.clone();
        let writer = std::thread::spawn(move || {
            use std::io::Write;
            let mut f = std::fs::OpenOptions::new().write(true).open(&fifo2).expect("open fifo for writing");
            for chunk in pl.chunks(7001) {
                if f.write_all(chunk).is_err() {
                    break; // the reader closed its end early: judged by the hash below
                }
            }
        });
        let got = guarded(|| {
            let mut h = api::hasher_for(&mode);
            let r = if rayon { h.update_mmap_rayon(&fifo).map(|_| ()) } else { h.update_mmap(&fifo).map(|_| ()) };
            r.map(|_| *h.finalize().as_bytes()).map_err(|e| format!("{:?}", e.kind()))
        });
        let _ = writer.join();
        rep.eval(format!("special/fifo/{}", rayon));
        match got {
            Ok(Ok(h)) if h == want => {}
            other => rep.violation("C11/special/fifo", format!("FIFO carrying {} bytes through {}: {:?}", payload.len(), if rayon { "update_mmap_rayon" } else { "update_mmap" }, other.map(|r| r.map(|h| hex(&h)))), vec![]),
        }
    }
    // a loop block device (st_size 0, length only known through seeking) and real EINTR on FIFO reads
    crate::c11x::block_device_case(&dir, &mut rng, rep, three_way);
    crate::c11x::eintr_storm_cases(&dir, &mut rng, rep, args.thorough);
    crate::c11x::pty_fault_cases(&mut rng, rep);
    crate::c11x::other_user_case(&mut rng, rep);
    crate::c11x::address_space_limit_case(&dir, &mut rng, rep);
    let _ = std::fs::remove_dir_all(&dir);
}

pub fn run(args: &Args) -> Report {
    let total = args.n(20_000, 600_000);
    let plats = args.platforms_or(&[P::Native, P::Portable]);
    #[cfg(feature = "full")]
    if let Some(kind) = args.get("child") {
        crate::c11x::child_main(kind, args.get("paths").unwrap_or(""), three_way);
    }
    if args.get("files-only") == Some("1") {
        let mut rep = Report::new();
        #[cfg(feature = "full")]
        file_cases(args, &mut rep);
        return rep;
    }
    let mut rep = run::run_cases(args, 11, total, |idx, rng, rep| {
        let p = plats[(idx % plats.len() as u64) as usize];
        plat::force(p);
        reader_case(args, idx, p, rng, rep);
        plat::force(P::Native);
    });
    if args.only.is_none() {
        #[cfg(feature = "full")]
        {
            let r = guarded(|| file_cases(args, &mut rep));
            if let Err(msg) = r {
                let at = monlib::last_panic_at();
                if at.starts_with("/repo/") {
                    rep.violation("C11/library-panic-outside-guard", format!("the library panicked at {} during the file battery: {}", at, msg), vec!["c11".into(), "--files-only".into(), "1".into()]);
                } else {
                    rep.count("harness_panics", 1);
                    rep.inconclusive.push(format!("harness panic in the file battery at {}: {}", at, msg));
                }
            }
        }
    }
    rep
}

pub const RULE: &str = "evaluations = fault-script readers (sequences of Ok(k) with hostile k, Err(Interrupted) anywhere, 5 hard error kinds, Ok(0)) checked against the model of the script (expected result kind, bytes yielded before the error, no poll after the terminator, hasher usable afterwards) + regular files on a length lattice around 16 KiB compared three ways (update_mmap, update_mmap_rayon, update_reader(File)) and with specmodel(fs::read) + special paths (symlink, /dev/null, /proc, sysfs file that cannot be mapped, directory, missing, FIFO, loop block device, FIFO read under a storm of signals without SA_RESTART); distinct = distinct scripts / file lengths / special paths";
