//! C15: the reference implementation and the published test vectors agree with the spec.
use crate::api;
use crate::run::{self, Args};
use monlib::{gen, guarded, hex, Json, Report, Rng};
use specmodel::{Mode, Stream};

fn ref_hasher(mode: &Mode) -> reference_impl::Hasher {
    match mode {
        Mode::Hash => reference_impl::Hasher::new(),
        Mode::Keyed(k) => reference_impl::Hasher::new_keyed(k),
        Mode::DeriveKey(c) => reference_impl::Hasher::new_derive_key(api::ctx_str(c)),
    }
}

const CANONICAL_LENS: [usize; 35] = [
    0, 1, 2, 3, 4, 5, 6, 7, 8, 63, 64, 65, 127, 128, 129, 1023, 1024, 1025, 2048, 2049, 3072, 3073, 4096, 4097, 5120, 5121, 6144, 6145, 7168, 7169, 8192, 8193, 16384, 31744, 102400,
];
const KEY: &[u8; 32] = b"whats the Elvish word for friend";
const CONTEXT: &str = "BLAKE3 2019-12-27 16:29:52 test vectors context";

fn json_vectors(rep: &mut Report) {
    let text = match std::fs::read_to_string("/repo/test_vectors/test_vectors.json") {
        Ok(t) => t,
        Err(e) => {
            rep.inconclusive.push(format!("cannot read test_vectors.json: {}", e));
            return;
        }
    };
    let v: serde_json::Value = match serde_json::from_str(&text) {
        Ok(v) => v,
        Err(e) => {
            rep.violation("C15/json/parse", format!("test_vectors.json is not valid JSON: {}", e), vec![]);
            return;
        }
    };
    let viol = |rep: &mut Report, class: &str, d: String| rep.violation(format!("C15/json/{}", class), d, vec!["c15".into(), "--json-only".into(), "1".into()]);
    if v["key"].as_str() != Some(std::str::from_utf8(KEY).unwrap()) {
        viol(rep, "key", format!("key field is {:?}", v["key"]));
    }
    if v["context_string"].as_str() != Some(CONTEXT) {
        viol(rep, "context", format!("context_string field is {:?}", v["context_string"]));
    }
    let cases = v["cases"].as_array().cloned().unwrap_or_default();
    let lens: Vec<usize> = cases.iter().map(|c| c["input_len"].as_u64().unwrap_or(u64::MAX) as usize).collect();
    if lens != CANONICAL_LENS {
        viol(rep, "lengths", format!("input lengths are {:?}", lens));
    }
    let mut bytes_compared = 0u64;
    for c in &cases {
        let n = c["input_len"].as_u64().unwrap_or(0) as usize;
        let input: Vec<u8> = (0..n).map(|i| (i % 251) as u8).collect();
        let modes = [("hash", Mode::Hash), ("keyed_hash", Mode::Keyed(*KEY)), ("derive_key", Mode::DeriveKey(CONTEXT.as_bytes().to_vec()))];
        for (field, mode) in modes.iter() {
            let want = hex(&specmodel::xof(mode, &input, 0, 131));
            rep.evaluations += 1;
            rep.distinct.insert(format!("json/{}/{}", n, field));
            match c[*field].as_str() {
                Some(s) if s == want => bytes_compared += 131,
                Some(s) => viol(rep, "vector", format!("{} for input_len {}: file has {}… (len {}), specification gives {}…", field, n, &s[..s.len().min(24)], s.len(), &want[..24])),
                None => viol(rep, "vector-missing", format!("{} missing for input_len {}", field, n)),
            }
            // the optimized crate and the reference implementation regenerate the same strings
            let mut o = vec![0u8; 131];
            api::hasher_for(mode).update(&input).finalize_xof().fill(&mut o);
            let mut r = vec![0u8; 131];
            let mut rh = ref_hasher(mode);
            rh.update(&input);
            rh.finalize(&mut r);
            if hex(&o) != want || hex(&r) != want {
                viol(rep, "implementations-disagree", format!("{} input_len {}: optimized={}… reference={}… spec={}…", field, n, &hex(&o)[..16], &hex(&r)[..16], &want[..16]));
            }
        }
    }
    rep.count("json_output_bytes_compared", bytes_compared);
    rep.seen("json", format!("{} cases x 3 modes x 131 bytes, exhaustive", cases.len()));
    rep.sample(Json::obj(vec![("kind", Json::s("test_vectors.json")), ("cases", Json::u(cases.len())), ("bytes_compared", Json::Int(bytes_compared as i128))]));
}

pub fn run(args: &Args) -> Report {
    if args.get("json-only") == Some("1") {
        let mut rep = Report::new();
        json_vectors(&mut rep);
        return rep;
    }
    let total = args.n(6000, 2_000_000);
    let mut rep = run::run_cases(args, 15, total, |idx, rng, rep| {
        let mode = gen::mode(rng);
        let mut h = ref_hasher(&mode);
        let mut opt = api::hasher_for(&mode);
        let mut m = Stream::new(&mode);
        let budget = if rng.chance(1, 30) { 600 * 1024 } else { 40 * 1024 };
        let pool = gen::content(rng, budget);
        let nops = 1 + rng.usize_below(10);
        let mut ops = vec![format!("new({})", api::mode_desc(&mode))];
        let mut failed: Option<(String, String)> = None;
        for _ in 0..nops {
            if failed.is_some() {
                break;
            }
            if rng.chance(2, 3) {
                let n = gen::hostile_len(rng, budget - m.bytes.len());
                let off = rng.usize_below(pool.len() - n + 1);
                let d = &pool[off..off + n];
                ops.push(format!("update({})", n));
                if let Err(e) = guarded(|| {
                    h.update(d);
                }) {
                    failed = Some(("panic".into(), format!("reference update({}) panicked: {}", n, e)));
                }
                opt.update(d);
                m.push(d);
            } else {
                let olen = match rng.below(4) {
                    0 => rng.usize_below(301),
                    1 => 1000,
                    2 if rng.chance(1, 8) => 65537,
                    _ => *rng.pick(&[0usize, 1, 31, 32, 33, 63, 64, 65, 127, 128, 129, 131]),
                };
                ops.push(format!("finalize({})", olen));
                let want = m.root().root_bytes(0, olen);
                let mut out = vec![0x5Au8; olen];
                match guarded(|| h.finalize(&mut out)) {
                    Ok(()) => {
                        if out != want {
                            let first = out.iter().zip(want.iter()).position(|(a, b)| a != b).unwrap_or(0);
                            failed = Some(("mismatch".into(), format!("reference finalize({}) after {} bytes differs from the specification at output byte {}", olen, m.bytes.len(), first)));
                        }
                        let mut o2 = vec![0u8; olen];
                        opt.finalize_xof().fill(&mut o2);
                        if failed.is_none() && o2 != out {
                            failed = Some(("optimized-disagrees".into(), format!("optimized crate and reference implementation disagree on {} output bytes after {} input bytes", olen, m.bytes.len())));
                        }
                    }
                    Err(e) => failed = Some(("panic".into(), format!("reference finalize({}) panicked: {}", olen, e))),
                }
            }
        }
        rep.eval(format!("ref/{}/{:x}", gen::mode_name(&mode), { let mut f = monlib::Fnv::new(); for o in &ops { f.add(o.as_bytes()); } f.0 }));
        if idx % 1009 == 0 {
            rep.sample(Json::obj(vec![("kind", Json::s("reference_impl history")), ("ops", Json::Arr(ops.iter().map(|s| Json::s(s.clone())).collect()))]));
        }
        if let Some((c, d)) = failed {
            rep.violation(format!("C15/reference_impl/{}", c), format!("{} | ops={:?}", d, ops), args.replay_args(idx, crate::plat::P::Native));
        }
    });
    if args.only.is_none() {
        json_vectors(&mut rep);
    }
    rep
}

pub const RULE: &str = "evaluations = reference_impl::Hasher histories (hostile update splits, interleaved finalize with output lengths 0..=300, 1000, 65537, three modes) compared with specmodel and with the optimized crate + exhaustive check of every field of test_vectors.json (key, context string, the 35 canonical input lengths, 35x3 hex strings of 131 bytes) against specmodel here and against pyspec in the driver; distinct = distinct histories / JSON fields";

#[allow(dead_code)]
fn _u(_: &mut Rng) {}
