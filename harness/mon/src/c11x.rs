//! C11 extras that need the operating system's cooperation:
//!  * a loop *block device* (st_size == 0, length only known through seeking, mappable), and
//!  * real EINTR: a storm of signals whose handler is installed without SA_RESTART while the
//!    file-reading entry points block on a slowly fed FIFO.
//! Both are skipped as *inconclusive* when the system refuses (no losetup, not root).
use crate::api;
use monlib::{guarded, hex, Report, Rng};
use std::io::Read;
use std::sync::atomic::{AtomicBool, AtomicU64, Ordering};

type R3 = (Result<[u8; 32], String>, Result<[u8; 32], String>, Result<[u8; 32], String>);

pub fn block_device_case(dir: &std::path::Path, rng: &mut Rng, rep: &mut Report, three_way: impl Fn(&std::path::Path, &specmodel::Mode) -> R3) {
    let mode = specmodel::Mode::Hash;
    for &n in &[(1usize << 20) + 16384, 16384, 64 * 1024 + 512] {
        let img = dir.join(format!("image{}.bin", n));
        let data = rng.bytes(n);
        if std::fs::write(&img, &data).is_err() {
            rep.inconclusive.push("block device case: cannot write the image".into());
            return;
        }
        let out = std::process::Command::new("losetup").args(["--find", "--show", "--read-only"]).arg(&img).output();
        let dev = match out {
            Ok(o) if o.status.success() => String::from_utf8_lossy(&o.stdout).trim().to_string(),
            Ok(o) => {
                rep.inconclusive.push(format!("block device case skipped: losetup failed: {}", String::from_utf8_lossy(&o.stderr).trim()));
                return;
            }
            Err(e) => {
                rep.inconclusive.push(format!("block device case skipped: cannot run losetup: {}", e));
                return;
            }
        };
        let devp = std::path::PathBuf::from(&dev);
        // what the device really yields (loop devices round down to 512-byte sectors)
        let content = std::fs::read(&devp);
        let res = content.as_ref().ok().map(|bytes| (three_way(&devp, &mode), specmodel::hash(&mode, bytes), bytes.len()));
        let _ = std::process::Command::new("losetup").arg("-d").arg(&dev).status();
        let _ = std::fs::remove_file(&img);
        match res {
            Some(((a, b, c), want, len)) => {
                rep.eval(format!("special/block-device/{}", len));
                rep.seen("block_device", format!("{} ({} bytes)", dev, len));
                if a != Ok(want) || b != Ok(want) || c != Ok(want) {
                    rep.violation("C11/special/block-device", format!("loop block device of {} bytes: mmap={:?} mmap_rayon={:?} reader={:?} but its bytes hash to {}", len, a.map(|h| hex(&h)), b.map(|h| hex(&h)), c.map(|h| hex(&h)), hex(&want)), vec!["c11".into(), "--files-only".into(), "1".into()]);
                }
            }
            None => rep.inconclusive.push(format!("block device case: cannot read {}", dev)),
        }
    }
}

static SIGNALS_HANDLED: AtomicU64 = AtomicU64::new(0);
extern "C" fn on_usr2(_: libc::c_int) {
    SIGNALS_HANDLED.fetch_add(1, Ordering::Relaxed);
}

struct CountingFile {
    f: std::fs::File,
    eintr: u64,
}
impl Read for CountingFile {
    fn read(&mut self, buf: &mut [u8]) -> std::io::Result<usize> {
        let r = self.f.read(buf);
        if let Err(e) = &r {
            if e.kind() == std::io::ErrorKind::Interrupted {
                self.eintr += 1;
            }
        }
        r
    }
}

fn gettid() -> i32 {
    unsafe { libc::syscall(libc::SYS_gettid) as i32 }
}

/// FIFO fed in slow bursts while every other thread of the process is hit by SIGUSR2 (handler
/// without SA_RESTART): blocking reads return EINTR for real. All three file entry points must
/// still hash exactly the bytes written.
pub fn eintr_storm_cases(dir: &std::path::Path, rng: &mut Rng, rep: &mut Report, thorough: bool) {
    unsafe {
        let mut sa: libc::sigaction = core::mem::zeroed();
        sa.sa_sigaction = on_usr2 as usize;
        sa.sa_flags = 0; // no SA_RESTART
        libc::sigemptyset(&mut sa.sa_mask);
        if libc::sigaction(libc::SIGUSR2, &sa, core::ptr::null_mut()) != 0 {
            rep.inconclusive.push("EINTR storm: sigaction failed".into());
            return;
        }
    }
    let mode = specmodel::Mode::Hash;
    let rounds = if thorough { 12 } else { 3 };
    let mut real_eintr = 0u64;
    for round in 0..rounds {
        for entry in 0..3 {
            let fifo = dir.join(format!("storm{}_{}", round, entry));
            let c = std::ffi::CString::new(fifo.to_str().unwrap()).unwrap();
            if unsafe { libc::mkfifo(c.as_ptr(), 0o600) } != 0 {
                rep.inconclusive.push("EINTR storm: mkfifo failed".into());
                return;
            }
            // > 256 KiB so that every buffering strategy needs several reads
            let plen = 300_000 + rng.usize_below(500_000);
            let payload = rng.bytes(plen);
            let want = specmodel::hash(&mode, &payload);
            let done = AtomicBool::new(false);
            let storm_tid = AtomicU64::new(0);
            let writer_tid = AtomicU64::new(0);
            let before = SIGNALS_HANDLED.load(Ordering::Relaxed);
            let mut seen_eintr = 0u64;
            let got = std::thread::scope(|s| {
                s.spawn(|| {
                    use std::io::Write;
                    writer_tid.store(gettid() as u64, Ordering::SeqCst);
                    let mut f = std::fs::OpenOptions::new().write(true).open(&fifo).expect("open fifo for writing");
                    for chunk in payload.chunks(40_000) {
                        std::thread::sleep(std::time::Duration::from_millis(12));
                        // a reader that gives up early closes its end (EPIPE here): the verdict
                        // comes from the hash, not from this write
                        if f.write_all(chunk).is_err() {
                            break;
                        }
                    }
                });
                s.spawn(|| {
                    storm_tid.store(gettid() as u64, Ordering::SeqCst);
                    let pid = unsafe { libc::getpid() };
                    while !done.load(Ordering::SeqCst) {
                        if let Ok(rd) = std::fs::read_dir("/proc/self/task") {
                            for e in rd.flatten() {
                                if let Ok(tid) = e.file_name().to_string_lossy().parse::<u64>() {
                                    if tid != storm_tid.load(Ordering::SeqCst) && tid != writer_tid.load(Ordering::SeqCst) {
                                        unsafe { libc::syscall(libc::SYS_tgkill, pid, tid as i32, libc::SIGUSR2) };
                                    }
                                }
                            }
                        }
                        std::thread::sleep(std::time::Duration::from_millis(1));
                    }
                });
                let r = guarded(|| {
                    let mut h = api::hasher_for(&mode);
                    let r = match entry {
                        0 => h.update_mmap(&fifo).map(|_| ()),
                        1 => h.update_mmap_rayon(&fifo).map(|_| ()),
                        _ => {
                            // File::open itself may be interrupted; std retries that
                            let mut cf = CountingFile { f: std::fs::File::open(&fifo).expect("open fifo"), eintr: 0 };
                            let r = h.update_reader(&mut cf).map(|_| ());
                            seen_eintr = cf.eintr;
                            r
                        }
                    };
                    r.map(|_| *h.finalize().as_bytes()).map_err(|e| format!("{:?}", e.kind()))
                });
                done.store(true, Ordering::SeqCst);
                r
            });
            real_eintr += seen_eintr;
            let name = ["update_mmap", "update_mmap_rayon", "update_reader(File)"][entry];
            rep.eval(format!("special/eintr-storm/{}", name));
            rep.count("storm_signals_handled", SIGNALS_HANDLED.load(Ordering::Relaxed) - before);
            match got {
                Ok(Ok(h)) if h == want => {}
                other => rep.violation(format!("C11/special/eintr-storm/{}", name), format!("FIFO carrying {} bytes in slow bursts while signals (no SA_RESTART) interrupt the reads, through {}: {:?}, the bytes hash to {}", plen, name, other.map(|r| r.map(|h| hex(&h))), hex(&want)), vec!["c11".into(), "--files-only".into(), "1".into()]),
            }
            let _ = std::fs::remove_file(&fifo);
        }
    }
    rep.count("storm_reads_that_returned_EINTR", real_eintr);
    if real_eintr == 0 {
        rep.inconclusive.push("EINTR storm: no read of the counting reader was actually interrupted".into());
    }
    unsafe {
        libc::signal(libc::SIGUSR2, libc::SIG_IGN);
    }
}

// ------------------------------------------------------------------------------------------------
// A file that delivers some bytes and then fails: the slave side of a pseudo-terminal in raw mode.
// After the bytes written to the master have been consumed the master is closed, and the next read
// on the slave fails with EIO. "Any other error is returned to the caller, after which the hasher
// reflects exactly the bytes yielded before the error" - also through the path-based entry points.
// ------------------------------------------------------------------------------------------------
pub fn pty_fault_cases(rng: &mut Rng, rep: &mut Report) {
    let mode = specmodel::Mode::Hash;
    for entry in 0..3 {
        let name = ["update_reader(File)", "update_mmap", "update_mmap_rayon"][entry];
        let (mut master, mut slave) = (0 as libc::c_int, 0 as libc::c_int);
        let mut namebuf = [0 as libc::c_char; 128];
        if unsafe { libc::openpty(&mut master, &mut slave, namebuf.as_mut_ptr(), core::ptr::null_mut(), core::ptr::null_mut()) } != 0 {
            rep.inconclusive.push("pty fault case skipped: openpty failed".into());
            return;
        }
        unsafe {
            let mut t: libc::termios = core::mem::zeroed();
            libc::tcgetattr(slave, &mut t);
            libc::cfmakeraw(&mut t);
            libc::tcsetattr(slave, libc::TCSANOW, &t);
        }
        let path = unsafe { std::ffi::CStr::from_ptr(namebuf.as_ptr()) }.to_string_lossy().into_owned();
        let n = 1 + rng.usize_below(3000);
        let payload = rng.bytes(n);
        let wrote = unsafe { libc::write(master, payload.as_ptr() as *const _, n) };
        if wrote != n as isize {
            rep.inconclusive.push("pty fault case skipped: short write to the pty master".into());
            unsafe {
                libc::close(master);
                libc::close(slave);
            }
            continue;
        }
        // close the master once the reader has drained the input queue
        let ready = std::sync::Arc::new(AtomicBool::new(false));
        let ready2 = ready.clone();
        let closer = std::thread::spawn(move || {
            let ready = ready2;
            let t0 = std::time::Instant::now();
            // the bytes reach the slave's input queue asynchronously (line-discipline worker):
            // first wait until they are all there, then until the reader has taken them
            let mut arrived = false;
            loop {
                let mut pending: libc::c_int = 0;
                unsafe { libc::ioctl(slave, libc::FIONREAD, &mut pending) };
                if !arrived {
                    if pending as usize == n {
                        arrived = true;
                        ready.store(true, Ordering::SeqCst);
                    } else if t0.elapsed().as_secs() > 20 {
                        ready.store(true, Ordering::SeqCst);
                        unsafe { libc::close(master) };
                        break -1;
                    }
                    std::thread::sleep(std::time::Duration::from_millis(1));
                    continue;
                }
                if pending == 0 || t0.elapsed().as_secs() > 40 {
                    // drained (or giving up): give the reader a moment to block in its next read,
                    // then hang up. A read that is blocked at that moment fails with EIO; a read
                    // that starts after the hang-up sees end-of-file instead - both are legitimate
                    // and both are accepted below.
                    std::thread::sleep(std::time::Duration::from_millis(60));
                    unsafe { libc::close(master) };
                    break pending;
                }
                std::thread::sleep(std::time::Duration::from_millis(2));
            }
        });
        let bl = rng.usize_below(200);
        let before_prefix = rng.bytes(bl);
        while !ready.load(Ordering::SeqCst) {
            std::thread::sleep(std::time::Duration::from_millis(1));
        }
        let r = guarded(|| {
            let mut h = api::hasher_for(&mode);
            h.update(&before_prefix);
            // the reader thread below blocks in read(); the closer thread closes the master
            let res = match entry {
                0 => match std::fs::File::open(&path) {
                    Ok(f) => h.update_reader(f).map(|_| ()),
                    Err(e) => Err(e),
                },
                1 => h.update_mmap(&path).map(|_| ()),
                _ => h.update_mmap_rayon(&path).map(|_| ()),
            };
            (res.map_err(|e| format!("{:?}", e.kind())), h.count(), *h.finalize().as_bytes())
        });
        let pending = closer.join().unwrap_or(1);
        unsafe {
            libc::close(slave);
        }
        rep.eval(format!("special/pty-eio/{}", name));
        match r {
            Ok((res, count, digest)) => {
                rep.seen("pty_outcomes", if res.is_ok() { "end-of-file" } else { "error" });
                let mut all = before_prefix.clone();
                all.extend_from_slice(&payload);
                let want = specmodel::hash(&mode, &all);
                if pending != 0 {
                    rep.inconclusive.push(format!("pty fault case ({}): the input queue was never drained", name));
                } else if count != all.len() as u64 || digest != want {
                    // whether the call ended with EIO (read blocked at hang-up) or with end-of-file
                    // (read started after it), the hasher must hold the prefix and all delivered bytes
                    rep.seen("pty_outcomes", if res.is_ok() { "end-of-file" } else { "error" });
                    rep.violation(format!("C11/special/pty-eio/{}/state-after-error", name), format!("{} on a file that yielded {} bytes and then ended with {:?}: afterwards count() = {} (expected {} = {} before the call + {} yielded) and finalize() = {} (the bytes absorbed hash to {})", name, n, res, count, all.len(), before_prefix.len(), n, hex(&digest), hex(&want)), vec!["c11".into(), "--files-only".into(), "1".into()]);
                }
            }
            Err(p) => rep.violation("C11/special/pty-eio/panic", format!("{}: {}", name, p), vec!["c11".into(), "--files-only".into(), "1".into()]),
        }
    }
}

// ------------------------------------------------------------------------------------------------
// Environments of the *process*: another user (files readable but owned by someone else, no
// CAP_FOWNER) and an address-space limit under which mmap() of a large file fails with ENOMEM.
// The hashing runs in a child (`mon c11 --child <kind> --paths a,b,..`) that prints its results.
// ------------------------------------------------------------------------------------------------
pub fn child_main(kind: &str, paths: &str, three_way: impl Fn(&std::path::Path, &specmodel::Mode) -> R3) -> ! {
    if kind == "aslimit" {
        let lim = libc::rlimit { rlim_cur: 900 << 20, rlim_max: 900 << 20 };
        if unsafe { libc::setrlimit(libc::RLIMIT_AS, &lim) } != 0 {
            println!("CHILD-ERROR setrlimit failed");
            std::process::exit(0);
        }
    }
    println!("CHILD uid={} kind={}", unsafe { libc::geteuid() }, kind);
    for p in paths.split(',').filter(|p| !p.is_empty()) {
        let (a, b, c) = three_way(std::path::Path::new(p), &specmodel::Mode::Hash);
        let f = |r: Result<[u8; 32], String>| match r {
            Ok(h) => hex(&h),
            Err(e) => format!("ERR:{}", e.replace(char::is_whitespace, "_")),
        };
        println!("RES {} {} {} {}", p, f(a), f(b), f(c));
    }
    std::process::exit(0)
}

fn wrong_entries(got: Option<&Vec<String>>, want: &str) -> String {
    let names = ["update_mmap", "update_mmap_rayon", "update_reader"];
    match got {
        Some(v) => names.iter().zip(v.iter()).filter(|(_, x)| x.as_str() != want).map(|(n, _)| *n).collect::<Vec<_>>().join("+"),
        None => "no-result".into(),
    }
}

fn run_child(kind: &str, paths: &[std::path::PathBuf], as_nobody: bool) -> Result<std::collections::HashMap<String, Vec<String>>, String> {
    use std::os::unix::process::CommandExt;
    let exe = std::env::current_exe().map_err(|e| e.to_string())?;
    let list: Vec<String> = paths.iter().map(|p| p.to_string_lossy().into_owned()).collect();
    let mut cmd = std::process::Command::new(exe);
    cmd.args(["c11", "--child", kind, "--paths", &list.join(","), "--threads", "1"]);
    cmd.env("RAYON_NUM_THREADS", "4");
    if as_nobody {
        cmd.uid(65534).gid(65534);
    }
    let out = cmd.output().map_err(|e| format!("cannot start the child: {}", e))?;
    let text = String::from_utf8_lossy(&out.stdout).into_owned();
    if !text.contains("CHILD uid=") || text.contains("CHILD-ERROR") {
        return Err(format!("child did not run as intended (status {:?}): {} {}", out.status.code(), text.chars().take(200).collect::<String>(), String::from_utf8_lossy(&out.stderr).chars().take(200).collect::<String>()));
    }
    if as_nobody && !text.contains("CHILD uid=65534") {
        return Err("child did not drop privileges".into());
    }
    let mut m = std::collections::HashMap::new();
    for line in text.lines() {
        let f: Vec<&str> = line.split(' ').collect();
        if f.len() == 5 && f[0] == "RES" {
            m.insert(f[1].to_string(), vec![f[2].to_string(), f[3].to_string(), f[4].to_string()]);
        }
    }
    Ok(m)
}

pub fn other_user_case(rng: &mut Rng, rep: &mut Report) {
    use std::os::unix::fs::PermissionsExt;
    if unsafe { libc::geteuid() } != 0 {
        rep.inconclusive.push("other-user case skipped: not running as root, cannot switch to another user".into());
        return;
    }
    // world-readable files owned by root in a world-searchable directory
    let dir = std::path::PathBuf::from(format!("/tmp/verif-c11-pub-{}", std::process::id()));
    let _ = std::fs::create_dir_all(&dir);
    let _ = std::fs::set_permissions(&dir, std::fs::Permissions::from_mode(0o755));
    let mut files = Vec::new();
    let mut wants = Vec::new();
    for (i, n) in [100usize, 16383, 16384, 16385, 70_000, 300_000].iter().enumerate() {
        let p = dir.join(format!("owned-by-root-{}", i));
        let data = rng.bytes(*n);
        std::fs::write(&p, &data).expect("scratch write");
        let _ = std::fs::set_permissions(&p, std::fs::Permissions::from_mode(0o644));
        wants.push(specmodel::hash(&specmodel::Mode::Hash, &data));
        files.push(p);
    }
    match run_child("unpriv", &files, true) {
        Err(e) => rep.inconclusive.push(format!("other-user case: {}", e)),
        Ok(res) => {
            for (p, want) in files.iter().zip(&wants) {
                rep.eval(format!("special/other-user/{}", p.file_name().unwrap().to_string_lossy()));
                let got = res.get(&p.to_string_lossy().into_owned());
                let w = hex(want);
                match got {
                    Some(v) if v.iter().all(|x| *x == w) => {}
                    other => rep.violation(format!("C11/special/other-user/{}", wrong_entries(other, &w)), format!("a world-readable file owned by root, hashed by uid 65534: [update_mmap, update_mmap_rayon, update_reader(File)] = {:?}, the bytes hash to {}", other, w), vec!["c11".into(), "--files-only".into(), "1".into()]),
                }
            }
        }
    }
    let _ = std::fs::remove_dir_all(&dir);
}

pub fn address_space_limit_case(dir: &std::path::Path, rng: &mut Rng, rep: &mut Report) {
    // sparse files larger than the child's 900 MiB address-space limit (mmap fails with ENOMEM
    // there), of sizes that are and are not multiples of anything convenient
    let sizes = [(1usize << 30) + 5, (1usize << 30) + (1 << 20) * (1 + rng.usize_below(200)) + 4096, (3usize << 29) + 1 + rng.usize_below(60_000)];
    let mut files = Vec::new();
    let mut wants = Vec::new();
    for (i, n) in sizes.iter().enumerate() {
        let p = dir.join(format!("sparse{}", i));
        let f = std::fs::OpenOptions::new().write(true).create(true).truncate(true).open(&p).expect("scratch file");
        // a few marker bytes near both ends and in the middle, otherwise a hole
        use std::os::unix::fs::FileExt;
        let mut data = vec![0u8; *n];
        for &at in &[0usize, n / 2, n - 20_000, n - 70] {
            let m = rng.bytes(64);
            let _ = f.write_all_at(&m, at as u64);
            data[at..at + 64].copy_from_slice(&m);
        }
        f.set_len(*n as u64).expect("set_len");
        wants.push(crate::huge::model_root(&specmodel::Mode::Hash, &data).root_hash());
        files.push(p);
    }
    match run_child("aslimit", &files, false) {
        Err(e) => rep.inconclusive.push(format!("address-space-limit case: {}", e)),
        Ok(res) => {
            for ((p, want), n) in files.iter().zip(&wants).zip(&sizes) {
                rep.eval(format!("special/address-space-limit/{}", n));
                let got = res.get(&p.to_string_lossy().into_owned());
                let w = hex(want);
                match got {
                    Some(v) if v.iter().all(|x| *x == w) => {}
                    other => rep.violation(format!("C11/special/address-space-limit/{}", wrong_entries(other, &w)), format!("a sparse {}-byte file hashed by a process whose address space is limited to 900 MiB (mmap fails with ENOMEM): [update_mmap, update_mmap_rayon, update_reader(File)] = {:?}, the bytes hash to {}", n, other, w), vec!["c11".into(), "--files-only".into(), "1".into()]),
                }
            }
        }
    }
    for p in files {
        let _ = std::fs::remove_file(p);
    }
}
