//! C11 extras that need the operating system's cooperation:
//!  * a loop *block device* (st_size == 0, length only known through seeking, mappable), and
//!  * real EINTR: a storm of signals whose handler is installed without SA_RESTART while the
//!    file-reading entry points block on a slowly fed FIFO.
//! Both are skipped as *inconclusive* when the system refuses (no losetup, not root).
use crate::api;
use monlib::{guarded, hex, Report, Rng};
use std::io::Read;
use std::sync::atomic::{AtomicBool, AtomicU64, Ordering};

type R3 = (Result<[u8; 32], String>, Result<[u8; 32], String>, Result<[u8; 32], String>);

pub fn block_device_case(dir: &std::path::Path, rng: &mut Rng, rep: &mut Report, three_way: impl Fn(&std::path::Path, &specmodel::Mode) -> R3) {
    let mode = specmodel::Mode::Hash;
    for &n in &[(1usize << 20) + 16384, 16384, 64 * 1024 + 512] {
        let img = dir.join(format!("image{}.bin", n));
        let data = rng.bytes(n);
        if std::fs::write(&img, &data).is_err() {
            rep.inconclusive.push("block device case: cannot write the image".into());
            return;
        }
        let out = std::process::Command::new("losetup").args(["--find", "--show", "--read-only"]).arg(&img).output();
        let dev = match out {
            Ok(o) if o.status.success() => String::from_utf8_lossy(&o.stdout).trim().to_string(),
            Ok(o) => {
                rep.inconclusive.push(format!("block device case skipped: losetup failed: {}", String::from_utf8_lossy(&o.stderr).trim()));
                return;
            }
            Err(e) => {
                rep.inconclusive.push(format!("block device case skipped: cannot run losetup: {}", e));
                return;
            }
        };
        let devp = std::path::PathBuf::from(&dev);
        // what the device really yields (loop devices round down to 512-byte sectors)
        let content = std::fs::read(&devp);
        let res = content.as_ref().ok().map(|bytes| (three_way(&devp, &mode), specmodel::hash(&mode, bytes), bytes.len()));
        let _ = std::process::Command::new("losetup").arg("-d").arg(&dev).status();
        let _ = std::fs::remove_file(&img);
        match res {
            Some(((a, b, c), want, len)) => {
                rep.eval(format!("special/block-device/{}", len));
                rep.seen("block_device", format!("{} ({} bytes)", dev, len));
                if a != Ok(want) || b != Ok(want) || c != Ok(want) {
                    rep.violation("C11/special/block-device", format!("loop block device of {} bytes: mmap={:?} mmap_rayon={:?} reader={:?} but its bytes hash to {}", len, a.map(|h| hex(&h)), b.map(|h| hex(&h)), c.map(|h| hex(&h)), hex(&want)), vec!["c11".into(), "--files-only".into(), "1".into()]);
                }
            }
            None => rep.inconclusive.push(format!("block device case: cannot read {}", dev)),
        }
    }
}

static SIGNALS_HANDLED: AtomicU64 = AtomicU64::new(0);
extern "C" fn on_usr2(_: libc::c_int) {
    SIGNALS_HANDLED.fetch_add(1, Ordering::Relaxed);
}

struct CountingFile {
    f: std::fs::File,
    eintr: u64,
}
impl Read for CountingFile {
    fn read(&mut self, buf: &mut [u8]) -> std::io::Result<usize> {
        let r = self.f.read(buf);
        if let Err(e) = &r {
            if e.kind() == std::io::ErrorKind::Interrupted {
                self.eintr += 1;
            }
        }
        r
    }
}

fn gettid() -> i32 {
    unsafe { libc::syscall(libc::SYS_gettid) as i32 }
}

/// FIFO fed in slow bursts while every other thread of the process is hit by SIGUSR2 (handler
/// without SA_RESTART): blocking reads return EINTR for real. All three file entry points must
/// still hash exactly the bytes written.
pub fn eintr_storm_cases(dir: &std::path::Path, rng: &mut Rng, rep: &mut Report, thorough: bool) {
    unsafe {
        let mut sa: libc::sigaction = core::mem::zeroed();
        sa.sa_sigaction = on_usr2 as usize;
        sa.sa_flags = 0; // no SA_RESTART
        libc::sigemptyset(&mut sa.sa_mask);
        if libc::sigaction(libc::SIGUSR2, &sa, core::ptr::null_mut()) != 0 {
            rep.inconclusive.push("EINTR storm: sigaction failed".into());
            return;
        }
    }
    let mode = specmodel::Mode::Hash;
    let rounds = if thorough { 12 } else { 3 };
    let mut real_eintr = 0u64;
    for round in 0..rounds {
        for entry in 0..3 {
            let fifo = dir.join(format!("storm{}_{}", round, entry));
            let c = std::ffi::CString::new(fifo.to_str().unwrap()).unwrap();
            if unsafe { libc::mkfifo(c.as_ptr(), 0o600) } != 0 {
                rep.inconclusive.push("EINTR storm: mkfifo failed".into());
                return;
            }
            // > 256 KiB so that every buffering strategy needs several reads
            let plen = 300_000 + rng.usize_below(500_000);
            let payload = rng.bytes(plen);
            let want = specmodel::hash(&mode, &payload);
            let done = AtomicBool::new(false);
            let storm_tid = AtomicU64::new(0);
            let writer_tid = AtomicU64::new(0);
            let before = SIGNALS_HANDLED.load(Ordering::Relaxed);
            let mut seen_eintr = 0u64;
            let got = std::thread::scope(|s| {
                s.spawn(|| {
                    use std::io::Write;
                    writer_tid.store(gettid() as u64, Ordering::SeqCst);
                    let mut f = std::fs::OpenOptions::new().write(true).open(&fifo).expect("open fifo for writing");
                    for chunk in payload.chunks(40_000) {
                        std::thread::sleep(std::time::Duration::from_millis(12));
                        f.write_all(chunk).expect("fifo write");
                    }
                });
                s.spawn(|| {
                    storm_tid.store(gettid() as u64, Ordering::SeqCst);
                    let pid = unsafe { libc::getpid() };
                    while !done.load(Ordering::SeqCst) {
                        if let Ok(rd) = std::fs::read_dir("/proc/self/task") {
                            for e in rd.flatten() {
                                if let Ok(tid) = e.file_name().to_string_lossy().parse::<u64>() {
                                    if tid != storm_tid.load(Ordering::SeqCst) && tid != writer_tid.load(Ordering::SeqCst) {
                                        unsafe { libc::syscall(libc::SYS_tgkill, pid, tid as i32, libc::SIGUSR2) };
                                    }
                                }
                            }
                        }
                        std::thread::sleep(std::time::Duration::from_millis(1));
                    }
                });
                let r = guarded(|| {
                    let mut h = api::hasher_for(&mode);
                    let r = match entry {
                        0 => h.update_mmap(&fifo).map(|_| ()),
                        1 => h.update_mmap_rayon(&fifo).map(|_| ()),
                        _ => {
                            // File::open itself may be interrupted; std retries that
                            let mut cf = CountingFile { f: std::fs::File::open(&fifo).expect("open fifo"), eintr: 0 };
                            let r = h.update_reader(&mut cf).map(|_| ());
                            seen_eintr = cf.eintr;
                            r
                        }
                    };
                    r.map(|_| *h.finalize().as_bytes()).map_err(|e| format!("{:?}", e.kind()))
                });
                done.store(true, Ordering::SeqCst);
                r
            });
            real_eintr += seen_eintr;
            let name = ["update_mmap", "update_mmap_rayon", "update_reader(File)"][entry];
            rep.eval(format!("special/eintr-storm/{}", name));
            rep.count("storm_signals_handled", SIGNALS_HANDLED.load(Ordering::Relaxed) - before);
            match got {
                Ok(Ok(h)) if h == want => {}
                other => rep.violation(format!("C11/special/eintr-storm/{}", name), format!("FIFO carrying {} bytes in slow bursts while signals (no SA_RESTART) interrupt the reads, through {}: {:?}, the bytes hash to {}", plen, name, other.map(|r| r.map(|h| hex(&h))), hex(&want)), vec!["c11".into(), "--files-only".into(), "1".into()]),
            }
            let _ = std::fs::remove_file(&fifo);
        }
    }
    rep.count("storm_reads_that_returned_EINTR", real_eintr);
    if real_eintr == 0 {
        rep.inconclusive.push("EINTR storm: no read of the counting reader was actually interrupted".into());
    }
    unsafe {
        libc::signal(libc::SIGUSR2, libc::SIG_IGN);
    }
}
