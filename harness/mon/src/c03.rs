//! C03: the extended output is one coherent seekable stream.
use crate::api;
use crate::plat::{self, P};
use crate::run::{self, Args};
use monlib::arena::{Arena, Side};
use monlib::{gen, guarded, hex, Json, Report, Rng};
use specmodel::{Mode, Node};

fn root_state(rng: &mut Rng) -> (blake3::OutputReader, Node, String) {
    let mode = gen::mode(rng);
    if rng.chance(1, 6) {
        // root built from two subtree chaining values through hazmat
        let l = rng.array32();
        let r = rng.array32();
        let (key, flags) = mode.key_flags();
        let node = specmodel::parent_node(&key, &specmodel::bytes_to_words8(&l), &specmodel::bytes_to_words8(&r), flags);
        let ck;
        let hm = match &mode {
            Mode::Hash => blake3::hazmat::Mode::Hash,
            Mode::Keyed(k) => blake3::hazmat::Mode::KeyedHash(k),
            Mode::DeriveKey(c) => {
                ck = blake3::hazmat::hash_derive_key_context(api::ctx_str(c));
                blake3::hazmat::Mode::DeriveKeyMaterial(&ck)
            }
        };
        let rd = blake3::hazmat::merge_subtrees_root_xof(&l, &r, hm);
        return (rd, node, format!("merge_root_xof({})", gen::mode_name(&mode)));
    }
    let n = *rng.pick(&[0usize, 1, 63, 64, 65, 1023, 1024, 1025, 2048, 4096, 5000, 100 * 1024]);
    let n = if rng.chance(1, 5) { rng.usize_below(9000) } else { n };
    let data = gen::content(rng, n);
    let mut h = api::hasher_for(&mode);
    h.update(&data);
    let node = specmodel::root_node(&mode, &data);
    (h.finalize_xof(), node, format!("{}(len={})", gen::mode_name(&mode), n))
}

fn pick_pos(rng: &mut Rng, n: usize) -> u64 {
    let p = if rng.chance(1, 8) { u64::MAX - 1 - n as u64 - rng.below(3) * 64 * rng.below(2) } else { gen::hostile_seek(rng) };
    p.min(u64::MAX - 1 - n as u64)
}

pub fn run(args: &Args) -> Report {
    let total = args.n(20_000, 3_000_000);
    let plats = args.platforms_or(&[P::Native, P::Portable, P::Sse2, P::Sse41, P::Avx2, P::Avx512]);
    let guard = args.get("guard") == Some("1");
    run::run_cases(args, 3, total, |idx, rng, rep| {
        let p = plats[(idx % plats.len() as u64) as usize];
        monlib::crash::set_case(idx, p as u64, 3);
        plat::force(p);
        let (rd0, node, desc) = root_state(rng);
        plat::force(P::Native);
        let mut readers: Vec<(blake3::OutputReader, u64)> = vec![(rd0, 0)];
        let mut ops: Vec<String> = vec![desc.clone()];
        let nops = 1 + rng.usize_below(12);
        let mut failed: Option<(String, String)> = None;
        let mut crossed_2_32 = false;
        macro_rules! fail {
            ($class:expr, $($arg:tt)*) => {{ if failed.is_none() { failed = Some(($class.to_string(), format!($($arg)*))); } }};
        }
        for _ in 0..nops {
            if failed.is_some() {
                break;
            }
            let ri = rng.usize_below(readers.len());
            let kind = rng.below(14);
            match kind {
                0..=5 => {
                    // reads of several flavours
                    let mut n = gen::hostile_outlen(rng, if args.thorough { 100 * 1024 } else { 33 * 1024 });
                    // one read in sixty is long (64 KiB .. 2.5 MiB: size thresholds inside the output
                    // path, and calls long enough for an asynchronous signal to land inside them)
                    let long = !guard && !cfg!(miri) && rng.chance(1, 60);
                    if long {
                        n = if rng.chance(1, 2) { (1 << 20) + rng.usize_below(3 << 19) } else { (1 << 16) + rng.usize_below(1 << 20) };
                    }
                    // the destination at every alignment relative to a 64-byte line
                    let voff = if guard { 0 } else { *rng.pick(&[0usize, 0, 32, 16, 1, 63, 33, 48]) };
                    let (rd, pos) = &mut readers[ri];
                    let n = if (*pos as u128) + (n as u128) > (u64::MAX as u128) - 1 { ((u64::MAX - 1 - *pos).min(n as u64)) as usize } else { n };
                    let want = node.root_bytes(*pos, n);
                    let b0 = *pos / 64;
                    let b1 = (*pos + n as u64) / 64;
                    if b0 < (1 << 32) && b1 >= (1 << 32) && n > 0 {
                        crossed_2_32 = true;
                    }
                    let side = if rng.chance(1, 2) { Side::Right } else { Side::Left };
                    let mut arena = if guard { Some(Arena::new(n, side, rng.u64())) } else { None };
                    let mut vbacking = vec![0xA5u8; if guard { 0 } else { n + voff + 64 }];
                    let vbase = if guard { 0 } else { (64 - (vbacking.as_ptr() as usize) % 64) % 64 + voff };
                    let v: &mut [u8] = if guard { &mut vbacking[..] } else { &mut vbacking[vbase..vbase + n] };
                    let which = kind;
                    let r = guarded(|| -> Result<usize, String> {
                        let buf: &mut [u8] = match arena.as_mut() {
                            Some(a) => a.as_mut_slice(),
                            None => &mut *v,
                        };
                        match which {
                            0 | 1 | 2 => {
                                rd.fill(buf);
                                Ok(buf.len())
                            }
                            #[cfg(feature = "std")]
                            3 => std::io::Read::read(rd, buf).map_err(|e| e.to_string()),
                            #[cfg(feature = "std")]
                            4 => std::io::Read::read_exact(rd, buf).map(|_| buf.len()).map_err(|e| e.to_string()),
                            #[cfg(feature = "std")]
                            5 => {
                                // take(n).read_to_end through a scratch vector, then copy
                                let mut tmp = Vec::new();
                                let k = std::io::Read::read_to_end(&mut std::io::Read::take(&mut *rd, buf.len() as u64), &mut tmp).map_err(|e| e.to_string())?;
                                if tmp.len() == buf.len() {
                                    buf.copy_from_slice(&tmp);
                                }
                                Ok(k)
                            }
                            _ => {
                                rd.fill(buf);
                                Ok(buf.len())
                            }
                        }
                    });
                    let got: &[u8] = match arena.as_ref() {
                        Some(a) => a.as_slice(),
                        None => &*v,
                    };
                    let opname = ["fill", "fill", "fill", "read", "read_exact", "take.read_to_end"][kind as usize];
                    ops.push(format!("r{}.{}({})@{}", ri, opname, n, *pos));
                    match r {
                        Ok(Ok(k)) => {
                            if k != n {
                                fail!(format!("{}/short", opname), "{} returned {} for a {}-byte buffer at position {}", opname, k, n, *pos);
                            } else if got != &want[..] {
                                let first = got.iter().zip(want.iter()).position(|(a, b)| a != b).unwrap_or(0);
                                fail!(format!("{}/mismatch", opname), "{}({}) at position {} differs from S at byte {} (got {} want {})", opname, n, *pos, first, hex(&got[first..(first + 8).min(n)]), hex(&want[first..(first + 8).min(n)]));
                            }
                            if let Some(a) = arena.as_ref() {
                                if let Some(off) = a.canary_violation(0..n) {
                                    fail!(format!("{}/canary", opname), "{}({}) wrote outside its buffer at offset {}", opname, n, off);
                                }
                            }
                            *pos += n as u64;
                            match guarded(|| rd.position()) {
                                Ok(pp) if pp == *pos => {}
                                Ok(pp) => fail!("position/mismatch", "position()={} after reading to {}", pp, *pos),
                                Err(m) => fail!("position/panic", "{}", m),
                            }
                        }
                        Ok(Err(e)) => fail!(format!("{}/error", opname), "{}({}) at {} failed: {}", opname, n, *pos, e),
                        Err(m) => fail!(format!("{}/panic", opname), "{}({}) at {} panicked: {}", opname, n, *pos, m),
                    }
                }
                6 | 7 => {
                    let np = pick_pos(rng, 0);
                    let (rd, pos) = &mut readers[ri];
                    ops.push(format!("r{}.set_position({})", ri, np));
                    match guarded(|| {
                        rd.set_position(np);
                        rd.position()
                    }) {
                        Ok(pp) if pp == np => *pos = np,
                        Ok(pp) => fail!("set_position/mismatch", "position()={} after set_position({})", pp, np),
                        Err(m) => fail!("set_position/panic", "set_position({}) panicked: {}", np, m),
                    }
                }
                #[cfg(feature = "std")]
                8..=11 => {
                    use std::io::{Seek, SeekFrom};
                    let (rd, pos) = &mut readers[ri];
                    let (sf, expect): (SeekFrom, Option<u64>) = match kind {
                        8 => {
                            let np = pick_pos(rng, 0);
                            (SeekFrom::Start(np), Some(np))
                        }
                        9 | 10 => {
                            let d: i64 = match rng.below(6) {
                                0 => -(rng.below(200) as i64),
                                1 => rng.below(200) as i64,
                                2 => -(((rng.u64() >> 1) >> rng.below(63)) as i64),
                                3 => ((rng.u64() >> 1 >> rng.below(63)) as i64).max(0),
                                4 => (-(*pos as i128) - rng.below(3) as i128).clamp(i64::MIN as i128, 0) as i64,
                                _ => i64::MIN + rng.below(2) as i64,
                            };
                            let t = *pos as i128 + d as i128;
                            if t > (u64::MAX as i128) - 1 {
                                // clamping beyond 2^64-1 is not part of the statement: skip
                                (SeekFrom::Current(0), Some(*pos))
                            } else if t < 0 {
                                (SeekFrom::Current(d), None)
                            } else {
                                (SeekFrom::Current(d), Some(t as u64))
                            }
                        }
                        _ => {
                            let x = match rng.below(4) {
                                0 => 0i64,
                                1 => -(rng.below(1000) as i64),
                                2 => rng.below(1000) as i64,
                                _ => rng.u64() as i64,
                            };
                            (SeekFrom::End(x), None)
                        }
                    };
                    ops.push(format!("r{}.seek({:?})@{}", ri, sf, *pos));
                    let r = guarded(|| (rd.seek(sf).map_err(|e| e.to_string()), rd.position(), rd.stream_position().map_err(|e| e.to_string())));
                    match r {
                        Ok((res, pp, sp)) => {
                            match (res, expect) {
                                (Ok(newp), Some(e)) => {
                                    if newp != e || pp != e {
                                        fail!("seek/mismatch", "seek({:?}) from {} returned {} / position {} but expected {}", sf, *pos, newp, pp, e);
                                    }
                                    *pos = e;
                                }
                                (Err(_), None) => {
                                    if pp != *pos {
                                        fail!("seek/failed-seek-moved", "failing seek({:?}) moved the position from {} to {}", sf, *pos, pp);
                                    }
                                }
                                (Ok(newp), None) => fail!("seek/invalid-accepted", "seek({:?}) from {} succeeded (returned {}) but must fail", sf, *pos, newp),
                                (Err(e), Some(x)) => fail!("seek/valid-rejected", "seek({:?}) from {} to {} failed: {}", sf, *pos, x, e),
                            }
                            if sp != Ok(pp) {
                                fail!("seek/stream_position", "stream_position()={:?} but position()={}", sp, pp);
                            }
                        }
                        Err(m) => fail!("seek/panic", "seek({:?}) from {} panicked: {}", sf, *pos, m),
                    }
                }
                _ => {
                    if readers.len() < 3 {
                        let c = (readers[ri].0.clone(), readers[ri].1);
                        readers.push(c);
                        ops.push(format!("r{}=r{}.clone()", readers.len() - 1, ri));
                    }
                }
            }
        }
        rep.eval(format!("{}/{}/{}", desc, p.name(), ops.len()));
        rep.count("ops", ops.len() as u64);
        if crossed_2_32 {
            rep.count("reads_crossing_block_counter_2^32", 1);
        }
        rep.seen("platforms", p.name());
        if idx % 1999 == 0 {
            rep.sample(Json::obj(vec![("case", Json::Int(idx as i128)), ("platform", Json::s(p.name())), ("ops", Json::Arr(ops.iter().map(|s| Json::s(s.clone())).collect()))]));
        }
        if let Some((class, detail)) = failed {
            rep.violation(format!("C03/{}", class), format!("{} | platform={} ops={:?}", detail, p.name(), ops), args.replay_args(idx, p));
        }
    })
}

pub const RULE: &str = "one evaluation = one OutputReader history (1-12 ops: fill/read/read_exact/take/set_position/seek/clone) on a root state of any mode (or merge_subtrees_root_xof), every read compared with specmodel's S[p..p+n] and every position with the model position; distinct = distinct (root state, platform, op count)";
