//! C10: reset() restores the initial state after any history; clones are independent.
//! Each instance is shadowed by a model: (mode, first chunk counter, bytes). After reset() the
//! shadow is the model of a *newly constructed* hasher of the same mode (offset 0, no bytes), so
//! every later observation is compared with what a fresh hasher would give.
use crate::api;
use crate::plat::{self, P};
use crate::run::{self, Args};
use blake3::hazmat::HasherExt;
use monlib::{gen, guarded, hex, Json, Report, Rng};
use specmodel::{Mode, Stream};

struct Slot {
    h: blake3::Hasher,
    m: Stream,
    /// bytes this subtree may still accept (None = unbounded, offset 0)
    cap: Option<u64>,
}

fn new_slot(mode: &Mode, via_ck: bool) -> Slot {
    let h = match mode {
        Mode::DeriveKey(c) if via_ck => blake3::Hasher::new_from_context_key(&specmodel::Mode::context_key(c)),
        m => api::hasher_for(m),
    };
    Slot { h, m: Stream::new(mode), cap: None }
}

fn valid_offset(rng: &mut Rng) -> (u64, u64) {
    // (chunk counter, max chunks of a subtree starting there, capped)
    let c = match rng.below(6) {
        0 => 1 + rng.below(64),
        1 => 1u64 << rng.below(20),
        2 => (1u64 << 32) - rng.below(20),
        3 => ((rng.below(1 << 20) | 1) << rng.below(12)) & ((1 << 54) - 1),
        4 => (1u64 << 53) | (rng.below(1 << 10) << 8),
        _ => rng.below(1 << 54).max(1),
    };
    let c = c.max(1) & ((1u64 << 54) - 1);
    let c = c.max(1);
    let tz = c.trailing_zeros().min(54);
    let by_tree = 1u128 << tz;
    let by_space = (1u128 << 54) - c as u128;
    (c, by_tree.min(by_space).min(1 << 20) as u64)
}

pub fn run(args: &Args) -> Report {
    let total = args.n(20_000, 2_000_000);
    let plats = args.platforms_or(&[P::Native, P::Portable]);
    run::run_cases(args, 10, total, |idx, rng, rep| {
        let p = plats[(idx % plats.len() as u64) as usize];
        plat::force(p);
        let mode = gen::mode(rng);
        let via_ck = rng.chance(1, 2);
        let budget: usize = if rng.chance(1, 30) { 1 << 20 } else { 64 * 1024 };
        let pool = gen::content(rng, budget);
        let mut slots = vec![new_slot(&mode, via_ck)];
        let mut ops: Vec<String> = vec![format!("new({},via_context_key={})", api::mode_desc(&mode), via_ck)];
        let mut failed: Option<(String, String)> = None;
        let mut resets = 0u64;
        let mut resets_after_offset = 0u64;
        macro_rules! fail {
            ($class:expr, $($arg:tt)*) => {{ if failed.is_none() { failed = Some(($class.to_string(), format!($($arg)*))); } }};
        }
        let nops = 2 + rng.usize_below(14);
        for step in 0..nops {
            if failed.is_some() {
                break;
            }
            let si = rng.usize_below(slots.len());
            let kind = if step == nops - 2 { 7 } else { rng.below(12) };
            match kind {
                0..=4 => {
                    let s = &mut slots[si];
                    let room = match s.cap {
                        Some(c) => (c - s.m.bytes.len() as u64).min(budget as u64) as usize,
                        None => budget.saturating_sub(s.m.bytes.len()),
                    };
                    let n = gen::hostile_len(rng, room);
                    let off = rng.usize_below(pool.len() - n + 1);
                    let d = &pool[off..off + n];
                    ops.push(format!("s{}.update({})", si, n));
                    match guarded(|| {
                        s.h.update(d);
                    }) {
                        Ok(()) => s.m.push(d),
                        Err(m) => fail!("update/panic", "update({}) panicked: {}", n, m),
                    }
                }
                5 => {
                    // set_input_offset is only legal on a hasher that has accepted no input
                    let s = &mut slots[si];
                    if s.m.bytes.is_empty() {
                        // offset 0 is a valid offset too ("the default"), and a hasher that has not
                        // accepted input may be re-pointed any number of times
                        let (c, maxchunks) = if rng.chance(1, 5) { (0, 1u64 << 40) } else { valid_offset(rng) };
                        ops.push(format!("s{}.set_input_offset({}*1024)", si, c));
                        match guarded(|| {
                            s.h.set_input_offset(c * 1024);
                        }) {
                            Ok(()) => {
                                s.m.first_chunk = c;
                                s.cap = if c == 0 { None } else { Some(maxchunks * 1024) };
                            }
                            Err(m) => fail!("set_input_offset/panic", "set_input_offset({}) on an empty hasher panicked: {}", c * 1024, m),
                        }
                    }
                }
                6 | 7 => {
                    let s = &mut slots[si];
                    if s.m.first_chunk != 0 {
                        resets_after_offset += 1;
                    }
                    resets += 1;
                    ops.push(format!("s{}.reset()", si));
                    match guarded(|| {
                        s.h.reset();
                    }) {
                        Ok(()) => {
                            // model of a newly constructed hasher
                            s.m.clear();
                            s.m.first_chunk = 0;
                            s.cap = None;
                        }
                        Err(m) => fail!("reset/panic", "reset() panicked: {}", m),
                    }
                }
                8 | 9 => {
                    if slots.len() < 4 {
                        let s = &slots[si];
                        let c = Slot { h: s.h.clone(), m: s.m.clone(), cap: s.cap };
                        slots.push(c);
                        ops.push(format!("s{}=s{}.clone()", slots.len() - 1, si));
                    } else {
                        // Clone::clone_from into a used instance (deeper or shallower CV stack, other
                        // offset, other mode): afterwards it must be indistinguishable from the source
                        let dst = (si + 1 + rng.usize_below(slots.len() - 1)) % slots.len();
                        let (srch, srcm, srccap) = (slots[si].h.clone(), slots[si].m.clone(), slots[si].cap);
                        ops.push(format!("s{}.clone_from(&s{})", dst, si));
                        match guarded(|| slots[dst].h.clone_from(&srch)) {
                            Ok(()) => {
                                slots[dst].m = srcm;
                                slots[dst].cap = srccap;
                            }
                            Err(m) => fail!("clone_from/panic", "clone_from panicked: {}", m),
                        }
                    }
                }
                _ => {}
            }
            // observations on every slot after every op
            for (i, s) in slots.iter_mut().enumerate() {
                if failed.is_some() {
                    break;
                }
                let n = s.m.bytes.len();
                match guarded(|| s.h.count()) {
                    Ok(c) if c == n as u64 => {}
                    Ok(c) => fail!("count/mismatch", "s{}.count()={} but a hasher in this state has absorbed {} bytes", i, c, n),
                    Err(m) => fail!("count/panic", "s{}.count() panicked: {}", i, m),
                }
                if s.m.first_chunk == 0 {
                    let node = s.m.root();
                    let want = node.root_hash();
                    let wx = node.root_bytes(70, 90);
                    match guarded(|| {
                        let mut x = [0u8; 90];
                        let mut rd = s.h.finalize_xof();
                        rd.set_position(70);
                        rd.fill(&mut x);
                        (*s.h.finalize().as_bytes(), x)
                    }) {
                        Ok((g, x)) => {
                            if g != want {
                                fail!("finalize/mismatch", "s{}.finalize()={} want {} ({} bytes since construction/reset)", i, hex(&g), hex(&want), n);
                            } else if x[..] != wx[..] {
                                fail!("xof/mismatch", "s{}.finalize_xof() window differs ({} bytes)", i, n);
                            }
                        }
                        Err(m) => fail!("finalize/panic", "s{}.finalize() panicked ({} bytes since construction/reset, offset 0): {}", i, n, m),
                    }
                }
                if n > 0 {
                    let want = s.m.root().cv_bytes();
                    match guarded(|| s.h.finalize_non_root()) {
                        Ok(g) if g == want => {}
                        Ok(g) => fail!("finalize_non_root/mismatch", "s{}.finalize_non_root()={} want {} (first chunk {}, {} bytes)", i, hex(&g), hex(&want), s.m.first_chunk, n),
                        Err(m) => fail!("finalize_non_root/panic", "s{}.finalize_non_root() panicked: {}", i, m),
                    }
                }
            }
        }
        plat::force(P::Native);
        rep.eval(format!("{}/{}/{}/{}", gen::mode_name(&mode), ops.len(), resets_after_offset, { let mut f = monlib::Fnv::new(); for o in &ops { f.add(o.as_bytes()); } f.0 }));
        rep.count("resets", resets);
        rep.count("resets_after_nonzero_offset", resets_after_offset);
        rep.count("ops", ops.len() as u64);
        if idx % 2003 == 0 {
            rep.sample(Json::obj(vec![("case", Json::Int(idx as i128)), ("platform", Json::s(p.name())), ("ops", Json::Arr(ops.iter().map(|s| Json::s(s.clone())).collect()))]));
        }
        if let Some((class, detail)) = failed {
            let after_off = ops.iter().any(|o| o.contains("set_input_offset"));
            let _ = after_off;
            rep.violation(format!("C10/{}", class), format!("{} | platform={} ops={:?}", detail, p.name(), ops), args.replay_args(idx, p));
        }
    })
}

pub const RULE: &str = "one evaluation = one history (updates, set_input_offset at valid offsets incl. >= 2^32 chunks, reset, clone on 1-4 hashers); after every op every instance is compared (count, finalize, XOF window, finalize_non_root) with the model of a newly constructed hasher fed the bytes since construction/reset; distinct = distinct op sequences";
