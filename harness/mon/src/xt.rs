//! Cross-target battery, sized for Miri: a few dozen micro-cases of the one-shot, incremental,
//! XOF, hazmat, guts and reference_impl monitors, meant to be interpreted for *foreign* targets
//! (big-endian s390x, 32-bit i686) so that endianness and pointer-width assumptions are executed.
//! Everything is compared with specmodel, which is endian- and width-agnostic by construction
//! (explicit little-endian conversions, u64/u128 arithmetic).
#![allow(deprecated)]
use crate::api;
use crate::run::Args;
use blake3::hazmat::{self, HasherExt};
use monlib::{gen, guarded, hex, Json, Report, Rng};
use specmodel::Mode;

fn modes(rng: &mut Rng) -> Vec<Mode> {
    vec![Mode::Hash, Mode::Keyed(rng.array32()), Mode::DeriveKey(b"xt context \xc3\xa9".to_vec())]
}

pub fn run(args: &Args) -> Report {
    let mut rep = Report::new();
    let mut rng = Rng::new(args.seed, 0x7817 + args.get("shard").map(|s| s.parse::<u64>().unwrap()).unwrap_or(0));
    let target = format!("{}-{}bit-{}", std::env::consts::ARCH, usize::BITS, if cfg!(target_endian = "big") { "BE" } else { "LE" });
    rep.seen("target", target.clone());
    let v = |rep: &mut Report, class: &str, d: String| rep.violation(format!("XT/{}/{}", class, if cfg!(target_endian = "big") { "big-endian" } else if usize::BITS == 32 { "32-bit" } else { "native" }), format!("[{}] {}", target, d), vec!["xt".into()]);
    // ---- one-shot + incremental splits ------------------------------------------------------
    for &n in &[0usize, 1, 64, 65, 1024, 1025, 2049, 3073, 5000] {
        let data = rng.bytes(n);
        for mode in modes(&mut rng) {
            let node = specmodel::root_node(&mode, &data);
            let want = node.root_hash();
            let cut = if n > 0 { rng.usize_below(n + 1) } else { 0 };
            let r = guarded(|| {
                let one = api::oneshot(&mode, &data);
                let mut h = api::hasher_for(&mode);
                h.update(&data[..cut]);
                h.update(&data[cut..]);
                let mut x = [0u8; 150];
                let mut rd = h.finalize_xof();
                rd.set_position(30);
                rd.fill(&mut x);
                (one, *h.finalize().as_bytes(), x, h.count())
            });
            rep.eval(format!("oneshot+split/{}/{}", gen::mode_name(&mode), n));
            match r {
                Ok((one, inc, x, c)) => {
                    if one != want || inc != want || c != n as u64 || x[..] != node.root_bytes(30, 150)[..] {
                        v(&mut rep, "hash", format!("len {} mode {}: one-shot {} incremental {} want {} count {}", n, gen::mode_name(&mode), hex(&one), hex(&inc), hex(&want), c));
                    }
                }
                Err(p) => v(&mut rep, "hash-panic", format!("len {} mode {}: {}", n, gen::mode_name(&mode), p)),
            }
        }
    }
    // ---- XOF at positions beyond 2^32 bytes / blocks ----------------------------------------
    for &pos in &[(1u64 << 32) - 10, (64u64 << 32) - 70, 1u64 << 40, u64::MAX - 200] {
        let data = rng.bytes(100);
        let node = specmodel::root_node(&Mode::Hash, &data);
        let r = guarded(|| {
            let mut rd = blake3::Hasher::new().update(&data).finalize_xof();
            rd.set_position(pos);
            let mut x = [0u8; 140];
            rd.fill(&mut x);
            (x, rd.position())
        });
        rep.eval(format!("xof/{}", pos));
        match r {
            Ok((x, p)) => {
                if x[..] != node.root_bytes(pos, 140)[..] || p != pos + 140 {
                    v(&mut rep, "xof", format!("fill(140) at position {} differs / position {}", pos, p));
                }
            }
            Err(p) => v(&mut rep, "xof-panic", format!("position {}: {}", pos, p)),
        }
    }
    // ---- hazmat: decompositions with non-root merges in every mode, large offsets -----------
    for mode in modes(&mut rng) {
        for &n in &[3079usize, 4096, 5 * 1024 + 7] {
            let data = rng.bytes(n);
            let ck = match &mode {
                Mode::DeriveKey(c) => specmodel::Mode::context_key(c),
                _ => [0; 32],
            };
            let hm = match &mode {
                Mode::Hash => hazmat::Mode::Hash,
                Mode::Keyed(k) => hazmat::Mode::KeyedHash(k),
                Mode::DeriveKey(_) => hazmat::Mode::DeriveKeyMaterial(&ck),
            };
            let want = specmodel::root_node(&mode, &data);
            let r = guarded(|| {
                // chunk CVs, merged pairwise bottom-up exactly along the tree
                fn cv(data: &[u8], off: usize, len: usize, mode: &Mode, hm: hazmat::Mode) -> [u8; 32] {
                    if len <= 1024 {
                        let mut h = api::hasher_for(mode);
                        h.set_input_offset(off as u64);
                        h.update(&data[off..off + len]);
                        h.finalize_non_root()
                    } else {
                        let l = hazmat::left_subtree_len(len as u64) as usize;
                        hazmat::merge_subtrees_non_root(&cv(data, off, l, mode, hm), &cv(data, off + l, len - l, mode, hm), hm)
                    }
                }
                let l = hazmat::left_subtree_len(n as u64) as usize;
                let a = cv(&data, 0, l, &mode, hm);
                let b = cv(&data, l, n - l, &mode, hm);
                let root = *hazmat::merge_subtrees_root(&a, &b, hm).as_bytes();
                let mut x = [0u8; 100];
                hazmat::merge_subtrees_root_xof(&a, &b, hm).fill(&mut x);
                (root, x)
            });
            rep.eval(format!("hazmat-merge/{}/{}", gen::mode_name(&mode), n));
            match r {
                Ok((root, x)) => {
                    if root != want.root_hash() || x[..] != want.root_bytes(0, 100)[..] {
                        v(&mut rep, "hazmat-merge", format!("mode {} len {}: merged root {} want {}", gen::mode_name(&mode), n, hex(&root), hex(&want.root_hash())));
                    }
                }
                Err(p) => v(&mut rep, "hazmat-merge-panic", format!("mode {} len {}: {}", gen::mode_name(&mode), n, p)),
            }
        }
        // multi-chunk subtrees at byte offsets beyond 2^32 (and beyond usize on 32-bit targets)
        for &counter in &[1u64 << 22, (1 << 22) + 4, 1 << 32, (1 << 32) + 8, (1 << 40) + (1 << 22), 3 << 30] {
            let chunks = 4usize;
            let data = rng.bytes(chunks * 1024);
            let (key, flags) = mode.key_flags();
            let want = specmodel::subtree(&key, &data, counter, flags).cv_bytes();
            for split in [vec![4096usize], vec![1024, 3072], vec![1, 4095], vec![2048, 2048]] {
                let r = guarded(|| {
                    let mut h = api::hasher_for(&mode);
                    h.set_input_offset(counter * 1024);
                    let mut fed = 0;
                    for s in &split {
                        h.update(&data[fed..fed + s]);
                        fed += s;
                    }
                    h.finalize_non_root()
                });
                rep.eval(format!("hazmat-offset/{}/{}/{:?}", gen::mode_name(&mode), counter, split));
                match r {
                    Ok(cv) if cv == want => {}
                    Ok(cv) => v(&mut rep, "hazmat-offset", format!("mode {} chunk counter {} split {:?}: cv {} want {}", gen::mode_name(&mode), counter, split, hex(&cv), hex(&want))),
                    Err(p) => v(&mut rep, "hazmat-offset-panic", format!("mode {} chunk counter {} split {:?}: {}", gen::mode_name(&mode), counter, split, p)),
                }
            }
        }
    }
    // ---- guts ---------------------------------------------------------------------------------
    for &c in &[0u64, 1, 1 << 32, u64::MAX] {
        let data = rng.bytes(700);
        let want = specmodel::chunk_node(&specmodel::IV, &data, c, 0).cv_bytes();
        rep.eval(format!("guts/{}", c));
        match guarded(|| *blake3::guts::ChunkState::new(c).update(&data).finalize(false).as_bytes()) {
            Ok(g) if g == want => {}
            Ok(g) => v(&mut rep, "guts", format!("ChunkState({}) cv {} want {}", c, hex(&g), hex(&want))),
            Err(p) => v(&mut rep, "guts-panic", p),
        }
    }
    // ---- reference implementation: outputs longer than one block, all modes ------------------
    #[cfg(any(feature = "full", feature = "refimpl"))]
    for mode in modes(&mut rng) {
        for &(n, olen) in &[(0usize, 64usize), (1500, 131), (3000, 200), (64, 65)] {
            let data = rng.bytes(n);
            let want = specmodel::xof(&mode, &data, 0, olen);
            let r = guarded(|| {
                let mut h = match &mode {
                    Mode::Hash => reference_impl::Hasher::new(),
                    Mode::Keyed(k) => reference_impl::Hasher::new_keyed(k),
                    Mode::DeriveKey(c) => reference_impl::Hasher::new_derive_key(api::ctx_str(c)),
                };
                h.update(&data[..n / 2]);
                h.update(&data[n / 2..]);
                let mut o = vec![0u8; olen];
                h.finalize(&mut o);
                o
            });
            rep.eval(format!("reference_impl/{}/{}/{}", gen::mode_name(&mode), n, olen));
            match r {
                Ok(o) if o == want => {}
                Ok(o) => v(&mut rep, "reference_impl", format!("mode {} len {} out {}: got {}… want {}…", gen::mode_name(&mode), n, olen, hex(&o[..o.len().min(24)]), hex(&want[..want.len().min(24)]))),
                Err(p) => v(&mut rep, "reference_impl-panic", p),
            }
        }
    }
    // ---- Hash conversions -------------------------------------------------------------------
    let hb = rng.array32();
    let h = blake3::Hash::from_bytes(hb);
    rep.eval("hash-conversions");
    if h.to_hex().as_str() != hex(&hb) || blake3::Hash::from_hex(hex(&hb)).map(|x| *x.as_bytes()).ok() != Some(hb) || h != hb {
        v(&mut rep, "hash-conversions", format!("to_hex/from_hex/eq of {} inconsistent", hex(&hb)));
    }
    rep.sample(Json::obj(vec![("target", Json::s(target)), ("evaluations", Json::Int(rep.evaluations as i128))]));
    rep
}

pub const RULE: &str = "cross-target battery interpreted by Miri for foreign targets (big-endian 64-bit s390x, little-endian 32-bit i686): one-shot and split hashing in three modes, XOF windows beyond 2^32, hazmat decompositions with non-root merges in every mode, multi-chunk subtrees at byte offsets beyond 2^32 under several update splits, guts chunk states, reference_impl outputs longer than one block, Hash conversions; every result compared with specmodel; distinct = distinct (case kind, mode, parameters)";
