//! C18: independent hashers are isolated across threads. One fresh process = N threads released
//! by one barrier, so that the very first calls (CPU feature detection) race; each thread runs
//! complete call histories on its own instances (optionally under its own forced platform through
//! the thread-local hook) and compares every result with specmodel.
use crate::hist::{self, Cfg};
use crate::plat::{self, P};
use crate::run::Args;
use monlib::{gen, guarded, hex, Json, Report, Rng};
use specmodel::Mode;
use std::sync::{Arc, Barrier};

pub fn run(args: &Args) -> Report {
    #[cfg(all(feature = "full", not(miri)))]
    if args.get("pool-files") == Some("1") {
        return crate::c18pool::run(args);
    }
    let n: usize = args.get("nthreads").map(|v| v.parse().expect("nthreads")).unwrap_or(8);
    let per_thread: u64 = args.get("per-thread").map(|v| v.parse().expect("per-thread")).unwrap_or(6);
    let small = args.get("miri-small") == Some("1");
    let barrier = Arc::new(Barrier::new(n));
    let burst_barrier = Arc::new(Barrier::new(n));
    let seed = args.seed;
    let proc_tag: u64 = args.get("proc").map(|v| v.parse().unwrap()).unwrap_or(0) * 64 + args.get("shard").map(|v| v.parse().unwrap()).unwrap_or(0);
    let cfg = if small {
        Cfg { max_ops: 4, max_total: 5 * 1024, rich: false, guard: false, big_chance: (0, 1) }
    } else {
        Cfg { max_ops: 10, max_total: 256 * 1024, rich: cfg!(feature = "full"), guard: false, big_chance: (1, 10) }
    };
    let handles: Vec<_> = (0..n)
        .map(|t| {
            let barrier = barrier.clone();
            let burst_barrier = burst_barrier.clone();
            let args = args.clone();
            std::thread::spawn(move || {
                let mut rep = Report::new();
                let mut rng = Rng::new(seed, 0x1800_0000 + proc_tag * 1000 + t as u64);
                // everything that touches blake3 happens after the barrier
                let first_kind = rng.below(4);
                let d0len = 1 + rng.usize_below(5000);
                let data0 = rng.bytes(d0len);
                let key0 = rng.array32();
                barrier.wait();
                // the very first call of this thread: races with the other threads' first calls
                let first = guarded(|| match first_kind {
                    0 => (*blake3::hash(&data0).as_bytes(), specmodel::hash(&Mode::Hash, &data0)),
                    1 => (*blake3::keyed_hash(&key0, &data0).as_bytes(), specmodel::hash(&Mode::Keyed(key0), &data0)),
                    2 => (blake3::derive_key("c18 first call", &data0), specmodel::hash(&Mode::DeriveKey(b"c18 first call".to_vec()), &data0)),
                    _ => {
                        let mut h = blake3::Hasher::new();
                        h.update(&data0);
                        let mut o = [0u8; 32];
                        h.finalize_xof().fill(&mut o);
                        (o, specmodel::hash(&Mode::Hash, &data0))
                    }
                });
                rep.eval(format!("first/{}/{}", t, first_kind));
                match first {
                    Ok((g, w)) if g == w => {}
                    Ok((g, w)) => rep.violation("C18/rust/first-call-mismatch", format!("thread {} first call kind {} gave {} want {}", t, first_kind, hex(&g), hex(&w)), args.replay_args(0, P::Native)),
                    Err(p) => rep.violation("C18/rust/first-call-panic", format!("thread {}: {}", t, p), args.replay_args(0, P::Native)),
                }
                rep.seen("detected", plat::detected_name());
                // per-thread forced platform (thread-local hook) for a part of the threads
                let choices = [P::Native, P::Native, P::Portable, P::Sse2, P::Sse41, P::Avx2, P::Avx512];
                let mut p = choices[rng.usize_below(choices.len())];
                if !p.available() {
                    p = P::Native;
                }
                for k in 0..per_thread {
                    let o = hist::run_history(&mut rng, &cfg, p, proc_tag * 100_000 + (t as u64) * 100 + k, &mut rep);
                    rep.eval(format!("hist/{}/{}/{:x}", t, p.name(), o.transcript));
                    rep.count("ops", o.ops.len() as u64);
                    if let Some((class, detail)) = &o.failed {
                        rep.violation(format!("C18/rust/{}", class), format!("thread {} of {} (platform {}): {} | ops={:?}", t, n, p.name(), detail, o.ops), args.replay_args(0, p));
                    }
                    // an OutputReader read interleaved with the others' work
                    let mode = gen::mode(&mut rng);
                    let dlen = rng.usize_below(3000);
                    let d = rng.bytes(dlen);
                    let seek = gen::hostile_seek(&mut rng).min(u64::MAX - 4000);
                    let len = gen::hostile_outlen(&mut rng, if small { 200 } else { 3000 });
                    plat::force(p);
                    let got = guarded(|| {
                        let mut h = crate::api::hasher_for(&mode);
                        h.update(&d);
                        let mut rd = h.finalize_xof();
                        rd.set_position(seek);
                        let mut o = vec![0u8; len];
                        rd.fill(&mut o);
                        o
                    });
                    plat::force(P::Native);
                    let want = specmodel::xof(&mode, &d, seek, len);
                    rep.eval(format!("xof/{}/{}/{}", t, seek % 64, len));
                    match got {
                        Ok(g) if g == want => {}
                        Ok(_) => rep.violation("C18/rust/xof-mismatch", format!("thread {}: XOF window seek={} len={} differs", t, seek, len), args.replay_args(0, p)),
                        Err(e) => rep.violation("C18/rust/xof-panic", e, args.replay_args(0, p)),
                    }
                }
                // a burst of one-shot calls with this thread's own short contexts / keys, racing
                // with the other threads' bursts (shared caches introduced "for speed" show here)
                let my_ctx: Vec<String> = (0..3).map(|j| format!("c18 thread {} ctx {} {}", t, j, rng.below(1000))).collect();
                let my_key = rng.array32();
                let burst = if small { 6 } else { 20_000 };
                // phase 1: tight loop of calls only (maximal overlap between threads; all threads
                // enter it together), phase 2: verification against the model
                let mut outs: Vec<[u8; 32]> = Vec::with_capacity(burst);
                burst_barrier.wait();
                let r1 = guarded(|| {
                    for k in 0..burst {
                        let msg = [(k & 0xff) as u8, (k >> 8) as u8, t as u8];
                        let c = &my_ctx[k % 3];
                        outs.push(match k % 4 {
                            0 | 1 => blake3::derive_key(c, &msg),
                            2 => *blake3::keyed_hash(&my_key, &msg).as_bytes(),
                            _ => *blake3::hash(&msg).as_bytes(),
                        });
                    }
                });
                if let Err(p) = r1 {
                    rep.violation("C18/rust/oneshot-burst-panic", format!("thread {}: {}", t, p), args.replay_args(0, P::Native));
                }
                let mut bad = 0u64;
                for (k, got) in outs.iter().enumerate() {
                    let msg = [(k & 0xff) as u8, (k >> 8) as u8, t as u8];
                    let c = &my_ctx[k % 3];
                    let want = match k % 4 {
                        0 | 1 => specmodel::hash(&Mode::DeriveKey(c.clone().into_bytes()), &msg),
                        2 => specmodel::hash(&Mode::Keyed(my_key), &msg),
                        _ => specmodel::hash(&Mode::Hash, &msg),
                    };
                    if *got != want {
                        bad += 1;
                        if bad == 1 {
                            rep.violation("C18/rust/oneshot-burst-mismatch", format!("thread {} of {}: one-shot call #{} (kind {}, context {:?}) returned {} while other threads were hashing; alone it returns {}", t, n, k, k % 4, c, hex(got), hex(&want)), args.replay_args(0, P::Native));
                        }
                    }
                }
                rep.count("oneshot_burst_wrong_results", bad);
                // second burst: update_reader / Write on this thread's own hashers, all threads
                // entering the I/O helpers at the same time
                #[cfg(feature = "std")]
                {
                    let rburst = if small { 4 } else { 6000 };
                    let mut routs: Vec<[u8; 32]> = Vec::with_capacity(rburst);
                    let payload: Vec<u8> = (0..700).map(|i| (i as u8).wrapping_mul(t as u8 + 3).wrapping_add(t as u8)).collect();
                    burst_barrier.wait();
                    let r2 = guarded(|| {
                        for k in 0..rburst {
                            let n = 1 + (k * 37 + t * 11) % 700;
                            let mut h = blake3::Hasher::new();
                            if k % 2 == 0 {
                                let _ = h.update_reader(&payload[..n]);
                            } else {
                                let _ = std::io::copy(&mut &payload[..n], &mut h);
                            }
                            routs.push(*h.finalize().as_bytes());
                        }
                    });
                    if let Err(p) = r2 {
                        rep.violation("C18/rust/reader-burst-panic", format!("thread {}: {}", t, p), args.replay_args(0, P::Native));
                    }
                    let mut rbad = 0u64;
                    for (k, got) in routs.iter().enumerate() {
                        let n = 1 + (k * 37 + t * 11) % 700;
                        let want = specmodel::hash(&Mode::Hash, &payload[..n]);
                        if *got != want {
                            rbad += 1;
                            if rbad == 1 {
                                rep.violation("C18/rust/reader-burst-mismatch", format!("thread {} of {}: update_reader/io::copy call #{} over {} bytes gave {} while other threads were reading; alone it gives {}", t, n, k, n, hex(got), hex(&want)), args.replay_args(0, P::Native));
                            }
                        }
                    }
                    rep.evaluations += rburst as u64;
                    rep.count("reader_burst_calls", rburst as u64);
                    rep.count("reader_burst_wrong_results", rbad);
                }
                rep.evaluations += burst as u64;
                rep.count("oneshot_burst_calls", burst as u64 * 3);
                rep.seen("thread_platforms", p.name());
                rep
            })
        })
        .collect();
    let mut merged = Report::new();
    for h in handles {
        match h.join() {
            Ok(r) => merged.merge(r),
            Err(_) => {
                merged.count("harness_panics", 1);
                merged.inconclusive.push("a worker thread died".into());
            }
        }
    }
    merged.count("threads", n as u64);
    merged.sample(Json::obj(vec![("threads", Json::u(n)), ("histories_per_thread", Json::Int(per_thread as i128)), ("process", Json::Int(proc_tag as i128))]));
    hist::cleanup_scratch();
    merged
}

pub const RULE: &str = "one fresh process = N threads (2..64) released by one barrier; each thread's very first call is a one-shot/hasher call racing with the others' CPU-feature detection, followed by complete call histories and XOF reads on its own instances under its own (thread-local) forced platform; every result compared with specmodel computed in the same thread; distinct = distinct (thread, platform, history transcript)";
