//! C05 / C07 (Rust side): every kernel reachable through `blake3::platform::Platform`
//! (Unix assembly or Rust intrinsics or c/blake3_avx512.c, depending on the crate flavour, plus
//! the portable Rust kernel) against specmodel's compression function, with every buffer in a
//! guard-page arena (flush right, flush left, or misaligned inside a canary field), read-only
//! inputs, and exact-window canary checks on outputs.
use crate::plat::P;
use crate::run::{self, Args};
use blake3::platform::Platform;
use blake3::IncrementCounter;
use monlib::arena::{Arena, Side};
use monlib::{guarded, hex, Json, Report, Rng};

pub fn counter_class(rng: &mut Rng, n: u64) -> (u64, &'static str) {
    // n = number of consecutive counters the call will use (must not wrap 2^64)
    let (c, name) = match rng.below(10) {
        0 => (0, "zero"),
        1 => ((1u64 << 32) - 1 - rng.below(17), "low-carry"),
        2 => ((1u64 << 31) - 1 - rng.below(17), "signed-compare"),
        3 => (u64::MAX - n, "largest-legal"),
        4 => ((1u64 << 32) + rng.below(3), "above-2^32"),
        5 => (1u64 << 63, "2^63"),
        6 => ((rng.below(1 << 31) << 32) | (0xFFFF_FFFF - rng.below(17)), "high-word-carry"),
        7 => (rng.below(20), "small"),
        _ => (rng.u64(), "random"),
    };
    if c > u64::MAX - n {
        (u64::MAX - n, "largest-legal")
    } else {
        (c, name)
    }
}

#[derive(Clone, Copy, Debug, PartialEq, Eq)]
pub enum Place {
    Right,
    Left,
    Mis(usize),
}

fn place(rng: &mut Rng, align: usize) -> Place {
    match rng.below(4) {
        0 | 1 => Place::Right,
        2 => Place::Left,
        _ => Place::Mis(align * rng.usize_below(64 / align)),
    }
}

/// A buffer of `len` bytes placed per `pl`. For `Mis(off)` the buffer sits `64+off` bytes into
/// a left-flush arena (64-byte aligned base + off), surrounded by canaries on both sides.
pub struct Buf {
    a: Arena,
    off: usize,
    len: usize,
    shadow: Option<Vec<u8>>,
}

thread_local! {
    pub static RO_REAL: std::cell::Cell<bool> = const { std::cell::Cell::new(false) };
}

impl Buf {
    pub fn new(len: usize, pl: Place, seed: u64) -> Buf {
        match pl {
            Place::Right => Buf { a: Arena::new(len, Side::Right, seed), off: 0, len, shadow: None },
            Place::Left => Buf { a: Arena::new(len, Side::Left, seed), off: 0, len, shadow: None },
            Place::Mis(o) => Buf { a: Arena::new(len + 64 + o + 64, Side::Left, seed), off: 64 + o, len, shadow: None },
        }
    }
    pub fn with(data: &[u8], pl: Place, seed: u64) -> Buf {
        let mut b = Buf::new(data.len(), pl, seed);
        b.slice_mut().copy_from_slice(data);
        b
    }
    pub fn ptr(&self) -> *const u8 {
        unsafe { self.a.as_ptr().add(self.off) }
    }
    pub fn slice(&self) -> &[u8] {
        &self.a.as_slice()[self.off..self.off + self.len]
    }
    pub fn slice_mut(&mut self) -> &mut [u8] {
        let (o, l) = (self.off, self.len);
        &mut self.a.as_mut_slice()[o..o + l]
    }
    /// Protect an input: really read-only (mprotect) on one case in 64, otherwise keep a shadow
    /// copy that `modified()` compares after the call (mprotect is pathologically slow in this
    /// VM as soon as several processes use it concurrently).
    pub fn readonly(&mut self) {
        if RO_REAL.with(|r| r.get()) {
            self.a.set_readonly(true);
        } else {
            self.shadow = Some(self.slice().to_vec());
        }
    }
    pub fn modified(&self) -> bool {
        match &self.shadow {
            Some(s) => s[..] != *self.slice(),
            None => false,
        }
    }
    /// first byte outside [0,written) of the buffer (or in the arena slack) that lost its canary
    pub fn canary_violation(&self, written: usize) -> Option<isize> {
        self.a.canary_violation(self.off..self.off + written).map(|x| x - self.off as isize)
    }
}

fn words(b: &[u8]) -> [u32; 8] {
    let mut w = [0u32; 8];
    for i in 0..8 {
        w[i] = u32::from_le_bytes([b[4 * i], b[4 * i + 1], b[4 * i + 2], b[4 * i + 3]]);
    }
    w
}

pub fn run(args: &Args) -> Report {
    let total = args.n(400_000, 6_000_000);
    let plats: Vec<P> = args.platforms_or(&[P::Portable, P::Sse2, P::Sse41, P::Avx2, P::Avx512]);
    let guard = args.get("guard") != Some("0");
    let randomize = args.get("randomize") == Some("1");
    run::run_cases(args, 5, total, |idx, rng, rep| {
        // the derivation of (platform, kind, structural parameters) from the index is independent
        // of which platforms are available or selected, so that `--only idx` replays exactly
        let p = crate::plat::ALL_FORCED[(idx % 5) as usize];
        if !plats.contains(&p) {
            return;
        }
        let platform: Platform = p.platform().expect("available");
        let kind = (idx / 5) % 8;
        monlib::crash::set_case(idx, p as u64, 5);
        RO_REAL.with(|r| r.set(idx % 64 == 0));
        let seed = rng.u64();
        let mut fail: Option<(String, String)> = None;
        match kind {
            // ------------------------------------------------------------ single-block kernels
            0 | 1 | 2 | 3 => {
                let sub = if randomize { rng.usize_below(1 << 24) } else { (idx / 40) as usize };
                let block_len = (sub % 65) as u8;
                let flags = if kind < 2 { ((sub / 65) % 256) as u8 } else { rng.below(256) as u8 };
                let (counter, cname) = counter_class(rng, 0);
                let cvb = rng.bytes(32);
                let blockb = rng.bytes(64);
                let want = specmodel::compress(&words(&cvb), blockb[..].try_into().unwrap(), counter, block_len as u32, flags as u32);
                let xof = kind % 2 == 1;
                let pl_block = if guard { place(rng, 1) } else { Place::Mis(0) };
                let pl_cv = if guard { place(rng, 4) } else { Place::Mis(0) };
                let mut block = Buf::with(&blockb, pl_block, seed);
                block.readonly();
                let mut cv = Buf::with(&cvb, pl_cv, seed ^ 1);
                let kname = if xof { "compress_xof" } else { "compress_in_place" };
                rep.eval(format!("{}/{}/bl{}/f{}/{}/{:?}", kname, p.name(), block_len, flags, cname, pl_block));
                rep.seen("kernels", format!("{}/{}", kname, p.name()));
                let block_ref: &[u8; 64] = unsafe { &*(block.ptr() as *const [u8; 64]) };
                if xof {
                    cv.readonly();
                    let cv_ref: &[u32; 8] = unsafe { &*(cv.ptr() as *const [u32; 8]) };
                    match guarded(|| platform.compress_xof(cv_ref, block_ref, block_len, counter, flags)) {
                        Ok(out) => {
                            let wb = specmodel::words_to_bytes(&want);
                            if out[..] != wb[..] {
                                fail = Some(("mismatch".into(), format!("got {} want {}", hex(&out), hex(&wb))));
                            }
                        }
                        Err(m) => fail = Some(("panic".into(), m)),
                    }
                } else {
                    let cv_mut: &mut [u32; 8] = unsafe { &mut *(cv.ptr() as *mut [u32; 8]) };
                    match guarded(|| platform.compress_in_place(cv_mut, block_ref, block_len, counter, flags)) {
                        Ok(()) => {
                            let wb = specmodel::words_to_bytes(&want[..8]);
                            if cv.slice() != &wb[..] {
                                fail = Some(("mismatch".into(), format!("got {} want {}", hex(cv.slice()), hex(&wb))));
                            } else if let Some(off) = cv.canary_violation(32) {
                                fail = Some(("canary".into(), format!("wrote outside the 32-byte cv at offset {}", off)));
                            }
                        }
                        Err(m) => fail = Some(("panic".into(), m)),
                    }
                }
                if let Some((c, d)) = fail.take() {
                    rep.violation(format!("{}/{}/{}/{}", if c == "canary" { "C07/kern" } else { "C05" }, kname, p.name(), c), format!("block_len={} flags={} counter={} cv={} block={} placement={:?}/{:?}: {}", block_len, flags, counter, hex(&cvb), hex(&blockb), pl_block, pl_cv, d), args.replay_args(idx, p));
                }
            }
            // ------------------------------------------------------------ hash_many
            4 | 5 | 6 => {
                let sub = if randomize { rng.usize_below(1 << 24) } else { (idx / 40) as usize };
                let n = sub % 36;
                let blocks = if (sub / 36) % 2 == 0 { 1 } else { 16 };
                let incr = (sub / 72) % 2 == 0;
                let (counter, cname) = counter_class(rng, n as u64);
                let (flags, fs, fe) = match rng.below(5) {
                    0 => (0u8, 0u8, 0u8),
                    1 => (255, 255, 255),
                    2 => (rng.below(128) as u8 & 0x70, 1, 2),
                    3 => (4 | (rng.below(128) as u8 & 0x70), 0, 0),
                    _ => (rng.below(256) as u8, rng.below(256) as u8, rng.below(256) as u8),
                };
                let keyb = rng.bytes(32);
                let key = words(&keyb);
                let ilen = blocks * 64;
                let mut inputs: Vec<Buf> = Vec::with_capacity(n);
                let mut want = Vec::with_capacity(32 * n);
                for i in 0..n {
                    let d = rng.bytes(ilen);
                    let c = if incr { counter + i as u64 } else { counter };
                    want.extend_from_slice(&specmodel::hash1(&key, &d, c, flags as u32, fs as u32, fe as u32));
                    let pl = if guard { place(rng, 1) } else { Place::Mis(0) };
                    let mut b = Buf::with(&d, pl, seed ^ i as u64);
                    b.readonly();
                    inputs.push(b);
                }
                let pl_out = if guard { place(rng, 1) } else { Place::Mis(0) };
                let mut out = Buf::new(32 * n, pl_out, seed ^ 0xABCD);
                // the slice of references itself lives flush against a guard page
                let pl_ptrs = if rng.chance(1, 4) { Place::Left } else { Place::Right };
                let mut ptrs = Buf::new(8 * n, pl_ptrs, seed ^ 0x77);
                for i in 0..n {
                    let pv = inputs[i].ptr() as usize as u64;
                    ptrs.slice_mut()[8 * i..8 * i + 8].copy_from_slice(&pv.to_ne_bytes());
                }
                ptrs.readonly();
                if args.get("verbose").is_some() {
                    eprintln!("hash_many p={} n={} blocks={} incr={} counter={} out={:?}@{:p} ptrs={:?}@{:p}", p.name(), n, blocks, incr, counter, pl_out, out.ptr(), pl_ptrs, ptrs.ptr());
                    for (i, b) in inputs.iter().enumerate() { eprintln!("  in[{}]@{:p}", i, b.ptr()); }
                }
                rep.eval(format!("hash_many/{}/n{}/b{}/i{}/{}/{:?}", p.name(), n, blocks, incr as u8, cname, pl_out));
                rep.seen("kernels", format!("hash_many{}/{}", blocks, p.name()));
                let inc = if incr { IncrementCounter::Yes } else { IncrementCounter::No };
                // Under Miri the reference array is an ordinary Vec (integers written into an arena
                // carry no provenance); natively it is the guard-page arena filled above.
                #[cfg(miri)]
                let r = if blocks == 1 {
                    let v: Vec<&[u8; 64]> = inputs.iter().map(|b| unsafe { &*(b.ptr() as *const [u8; 64]) }).collect();
                    guarded(|| platform.hash_many(&v, &key, counter, inc, flags, fs, fe, out.slice_mut()))
                } else {
                    let v: Vec<&[u8; 1024]> = inputs.iter().map(|b| unsafe { &*(b.ptr() as *const [u8; 1024]) }).collect();
                    guarded(|| platform.hash_many(&v, &key, counter, inc, flags, fs, fe, out.slice_mut()))
                };
                #[cfg(not(miri))]
                let r = if blocks == 1 {
                    let refs: &[&[u8; 64]] = unsafe { core::slice::from_raw_parts(ptrs.ptr() as *const &[u8; 64], n) };
                    guarded(|| platform.hash_many(refs, &key, counter, inc, flags, fs, fe, out.slice_mut()))
                } else {
                    let refs: &[&[u8; 1024]] = unsafe { core::slice::from_raw_parts(ptrs.ptr() as *const &[u8; 1024], n) };
                    guarded(|| platform.hash_many(refs, &key, counter, inc, flags, fs, fe, out.slice_mut()))
                };
                match r {
                    Ok(()) => {
                        if inputs.iter().any(|b| b.modified()) || ptrs.modified() {
                            fail = Some(("canary".into(), "a read-only input (or the pointer array) was modified".into()));
                        } else if out.slice() != &want[..] {
                            let first = out.slice().iter().zip(want.iter()).position(|(a, b)| a != b).unwrap_or(0);
                            fail = Some(("mismatch".into(), format!("output differs first at byte {} (input #{})", first, first / 32)));
                        } else if let Some(off) = out.canary_violation(32 * n) {
                            fail = Some(("canary".into(), format!("wrote outside the {}-byte output at offset {}", 32 * n, off)));
                        }
                    }
                    Err(m) => fail = Some(("panic".into(), m)),
                }
                if let Some((c, d)) = fail.take() {
                    rep.violation(format!("{}/hash_many/{}/{}", if c == "canary" { "C07/kern" } else { "C05" }, p.name(), c), format!("num_inputs={} blocks={} increment={} counter={} flags=({},{},{}) out_placement={:?}: {}", n, blocks, incr, counter, flags, fs, fe, pl_out, d), args.replay_args(idx, p));
                }
            }
            // ------------------------------------------------------------ xof_many
            _ => {
                let sub = if randomize { rng.usize_below(1 << 24) } else { (idx / 40) as usize };
                let mut n = sub % 36; // 0 goes through the wrapper's guard
                // one call in 400 produces a megabyte (size thresholds inside a kernel, e.g. another
                // store instruction for large outputs), at every output alignment
                let large = !cfg!(miri) && idx < 1_000_000 && rng.chance(1, 400);
                if large {
                    n = 16384 + rng.usize_below(48);
                }
                let block_len = ((sub / 36) % 65) as u8;
                let (counter, cname) = counter_class(rng, n as u64);
                let flags = rng.below(256) as u8;
                let cvb = rng.bytes(32);
                let blockb = rng.bytes(64);
                let cvw = words(&cvb);
                let mut want = Vec::with_capacity(64 * n);
                for i in 0..n {
                    want.extend_from_slice(&specmodel::words_to_bytes(&specmodel::compress(&cvw, blockb[..].try_into().unwrap(), counter + i as u64, block_len as u32, flags as u32)));
                }
                let pl_out = if large { Place::Mis(*rng.pick(&[0usize, 32, 16, 48, 8, 1, 33])) } else if guard { place(rng, 1) } else { Place::Mis(0) };
                let mut out = Buf::new(64 * n, pl_out, seed ^ 0x51);
                let mut block = Buf::with(&blockb, if guard { place(rng, 1) } else { Place::Mis(0) }, seed);
                block.readonly();
                let mut cv = Buf::with(&cvb, if guard { place(rng, 4) } else { Place::Mis(0) }, seed ^ 2);
                cv.readonly();
                let block_ref: &[u8; 64] = unsafe { &*(block.ptr() as *const [u8; 64]) };
                let cv_ref: &[u32; 8] = unsafe { &*(cv.ptr() as *const [u32; 8]) };
                rep.eval(format!("xof_many/{}/n{}/bl{}/{}/{:?}", p.name(), n, block_len, cname, pl_out));
                rep.seen("kernels", format!("xof_many/{}", p.name()));
                match guarded(|| platform.xof_many(cv_ref, block_ref, block_len, counter, flags, out.slice_mut())) {
                    Ok(()) => {
                        if out.slice() != &want[..] {
                            let first = out.slice().iter().zip(want.iter()).position(|(a, b)| a != b).unwrap_or(0);
                            fail = Some(("mismatch".into(), format!("output differs first at byte {} (block #{})", first, first / 64)));
                        } else if let Some(off) = out.canary_violation(64 * n) {
                            fail = Some(("canary".into(), format!("wrote outside the {}-byte output at offset {}", 64 * n, off)));
                        }
                    }
                    Err(m) => fail = Some(("panic".into(), m)),
                }
                if let Some((c, d)) = fail.take() {
                    rep.violation(format!("{}/xof_many/{}/{}", if c == "canary" { "C07/kern" } else { "C05" }, p.name(), c), format!("n={} block_len={} counter={} flags={} out_placement={:?}: {}", n, block_len, counter, flags, pl_out, d), args.replay_args(idx, p));
                }
            }
        }
        if idx % 50_021 == 0 {
            rep.sample(Json::obj(vec![("case", Json::Int(idx as i128)), ("platform", Json::s(p.name())), ("kind", Json::Int(kind as i128))]));
        }
    })
}

/// Safe-API robustness probes (C07): the safe, doc-hidden `Platform::hash_many` with an `out`
/// slice shorter than 32 bytes per input, and `xof_many` with a ragged `out`, must panic or
/// write only inside `out` - never past a Rust slice.
pub fn probes(args: &Args) -> Report {
    let plats: Vec<P> = args.platforms_or(&[P::Portable, P::Sse2, P::Sse41, P::Avx2, P::Avx512]);
    let total = args.n(4000, 100_000);
    run::run_cases(args, 55, total, |idx, rng, rep| {
        let p = plats[(idx % plats.len() as u64) as usize];
        let platform = p.platform().expect("available");
        monlib::crash::set_case(idx, p as u64, 55);
        let n = 1 + rng.usize_below(20);
        let short = rng.usize_below(32 * n); // strictly shorter than needed
        let key = words(&rng.bytes(32));
        let datas: Vec<Vec<u8>> = (0..n).map(|_| rng.bytes(64)).collect();
        let refs: Vec<&[u8; 64]> = datas.iter().map(|d| <&[u8; 64]>::try_from(&d[..]).unwrap()).collect();
        let mut out = Buf::new(short, if rng.chance(1, 2) { Place::Right } else { Place::Mis(0) }, rng.u64());
        let r = guarded(|| platform.hash_many(&refs, &key, 0, IncrementCounter::Yes, 0, 0, 0, out.slice_mut()));
        rep.eval(format!("short-out/{}/{}/{}", p.name(), n, short));
        let outcome = if r.is_err() { "panicked" } else { "returned" };
        rep.seen("short_out_outcomes", format!("{}:{}", p.name(), outcome));
        if let Some(off) = out.canary_violation(short) {
            rep.violation(format!("C07/safe-api/hash_many-short-out/{}", p.name()), format!("hash_many with {} inputs and a {}-byte out wrote outside the slice at offset {} ({})", n, short, off, outcome), args.replay_args(idx, p));
        }
    })
}

pub const RULE: &str = "one evaluation = one kernel call through blake3::platform::Platform (compress_in_place, compress_xof, hash_many with 1/16 blocks, xof_many) compared with specmodel's compression function; structural parameters enumerated (block_len 0..=64 x flags 0..=255, num_inputs 0..=35 x blocks x increment), data/counter classes/placements seeded; distinct = distinct (kernel, platform, structural parameters, counter class, placement)";
