//! C02: incremental hashing independent of splitting; finalize is a pure query; count().
use crate::hist::{self, Cfg};
use crate::plat::P;
use crate::run::{self, Args};
use monlib::Report;

pub fn run(args: &Args) -> Report {
    let total = args.n(6000, 200_000);
    let small = args.get("miri-small") == Some("1");
    let plats = if small { args.platforms_or(&[P::Portable, P::Sse2, P::Sse41, P::Avx2]) } else { args.platforms_or(&[P::Native, P::Portable]) };
    let guard = args.get("guard") == Some("1");
    let cfg = if small {
        // interpreter-sized histories (Miri is ~4 orders of magnitude slower)
        Cfg { max_ops: 5, max_total: 9 * 1024, rich: cfg!(feature = "full"), guard: false, big_chance: (0, 1) }
    } else {
        Cfg { max_ops: 14, max_total: if args.thorough { 20 << 20 } else { 2 << 20 }, rich: cfg!(feature = "full"), guard, big_chance: (1, 40) }
    };
    let rep = run::run_cases(args, 2, total, |idx, rng, rep| {
        let p = plats[(idx % plats.len() as u64) as usize];
        monlib::crash::set_case(idx, p as u64, 2);
        let o = hist::run_history(rng, &cfg, p, idx, rep);
        let shape = format!("{}/ops{}/pop{}/{}", o.ops[0].split('(').nth(1).unwrap_or("").split(':').next().unwrap_or(""), o.ops.len().min(20), o.max_stack_popcount, p.name());
        rep.eval(format!("{}/{:x}", shape, o.transcript));
        rep.count("ops", o.ops.len() as u64);
        rep.seen("shapes", shape);
        if idx % 1511 == 0 {
            rep.sample(hist::outcome_sample(idx, p, &o));
        }
        if let Some((class, detail)) = &o.failed {
            rep.violation(format!("C02/{}", class), format!("{} | platform={} ops={:?}", detail, p.name(), o.ops), args.replay_args(idx, p));
        }
    });
    hist::cleanup_scratch();
    rep
}

pub const RULE: &str = "one evaluation = one call history (1-14 absorbing/clone/query ops on 1-4 hashers, hostile lengths) with count() checked after every op and finalize/finalize_xof checked against specmodel; distinct = distinct (mode, op count, tree-shape popcount, platform, transcript digest)";
