//! `mon <monitor> [--seed S] [--tier quick|thorough] [--out FILE] [--only I] [--platforms a,b]`
//! Runtime monitors over the real blake3 crate built from /repo with hooks enabled.
mod api;
mod c01;
mod c02;
mod c03;
#[cfg(feature = "std")]
mod c08;
#[cfg(feature = "std")]
mod c18;
mod c09;
mod c10;
#[cfg(feature = "std")]
mod c11;
#[cfg(feature = "std")]
mod c14;
#[cfg(feature = "full")]
mod c15;
#[cfg(feature = "full")]
mod c16;
#[cfg(feature = "full")]
mod c17;
#[cfg(feature = "full")]
mod binfmt;
#[cfg(feature = "full")]
mod c11x;
#[cfg(all(feature = "full", not(miri)))]
mod c18pool;
mod cscript;
mod huge;
#[cfg(all(feature = "full", not(miri)))]
mod scanalloc;
mod hist;
mod kern;
mod plat;
mod run;
mod xcheck;
#[cfg(feature = "std")]
mod xt;

use run::Args;


fn main() {
    let argv: Vec<String> = std::env::args().skip(1).collect();
    if argv.is_empty() {
        eprintln!("usage: mon <monitor> [options]");
        std::process::exit(2);
    }
    monlib::quiet_panics();
    monlib::crash::install();
    let args = Args::parse(&argv);
    if let Err(e) = specmodel::selftest() {
        println!("ORACLE-SELFTEST-FAILED {}", e);
        std::process::exit(3);
    }
    let storm = monlib::storm::start_from_env();
    let (mut rep, rule) = match args.monitor.as_str() {
        "c01" => (c01::run(&args), c01::RULE),
        "c02" => (c02::run(&args), c02::RULE),
        "c03" => (c03::run(&args), c03::RULE),
        #[cfg(feature = "std")]
        "c08" => (c08::run(&args), c08::RULE),
        #[cfg(feature = "std")]
        "c18" => (c18::run(&args), c18::RULE),
        "c09" => (c09::run(&args), c09::RULE),
        #[cfg(feature = "std")]
        "xt" => (xt::run(&args), xt::RULE),
        "kern" => (kern::run(&args), kern::RULE),
        "probes" => (kern::probes(&args), kern::RULE),
        "c10" => (c10::run(&args), c10::RULE),
        #[cfg(feature = "std")]
        "c11" => (c11::run(&args), c11::RULE),
        #[cfg(feature = "std")]
        "c14" => (c14::run(&args), c14::RULE),
        #[cfg(feature = "full")]
        "c15" => (c15::run(&args), c15::RULE),
        #[cfg(feature = "full")]
        "c16" => (c16::run(&args), c16::RULE),
        #[cfg(feature = "full")]
        "c17" => (c17::run(&args), c17::RULE),
        "huge" => (huge::run(&args), huge::RULE),
        "huge-expect" => {
            huge::expect(&args);
            return;
        }
        "gen-cscript" => {
            cscript::run(&args);
            return;
        }
        "xcheck" => {
            xcheck::run(&args);
            return;
        }
        "selftest" => {
            println!("specmodel selftest ok");
            return;
        }
        other => {
            eprintln!("unknown monitor {}", other);
            std::process::exit(2);
        }
    };
    if let Some(us) = storm {
        monlib::storm::stop();
        rep.count("sigstorm_interval_us", us);
        rep.count("sigstorm_signals_handled", monlib::storm::handled());
        if monlib::storm::handled() == 0 {
            rep.inconclusive.push("signal storm requested but no signal was handled".into());
        }
    }
    run::emit(&args, &args.monitor, rule, &rep);
}
