//! Oracle cross-check: emits seeded cases with specmodel's answers; the check driver recomputes
//! them with pyspec/b3spec.py. A disagreement is a harness error (ORACLE-SELFTEST-FAILED), never
//! a violation.
use crate::run::Args;
use monlib::{gen, hex, Rng};
use specmodel::Mode;

pub fn run(args: &Args) {
    let mut rng = Rng::new(args.seed, 0xC0FFEE);
    let n = args.n(60, 400);
    for i in 0..n {
        let mode = gen::mode(&mut rng);
        let len = match i % 6 {
            0 => rng.usize_below(130),
            1 => 1024 * (1 + rng.usize_below(8)) + rng.usize_below(3) - 1,
            2 => rng.usize_below(5000),
            3 => gen::hostile_len(&mut rng, 40 * 1024),
            _ => rng.usize_below(12 * 1024),
        };
        let data = gen::content(&mut rng, len);
        let (m, k, c) = match &mode {
            Mode::Hash => ("hash", "-".to_string(), "-".to_string()),
            Mode::Keyed(k) => ("keyed", hex(k), "-".to_string()),
            Mode::DeriveKey(c) => ("derive", "-".to_string(), if c.is_empty() { "-".to_string() } else { hex(c) }),
        };
        if matches!(&mode, Mode::DeriveKey(c) if c.is_empty()) {
            // the line protocol cannot express an empty context distinctly from "none"; pyspec
            // treats "-" as empty for derive mode
        }
        let dh = if data.is_empty() { "-".to_string() } else { hex(&data) };
        if i % 3 == 0 && len > 0 {
            // subtree chaining value at a large chunk counter
            let first = match i % 9 {
                0 => (1u64 << 32) - rng.below(40),
                3 => (1u64 << 53) + rng.below(40),
                _ => rng.u64() >> rng.below(40),
            };
            let (key, flags) = mode.key_flags();
            let cv = specmodel::subtree(&key, &data, first, flags).cv_bytes();
            println!("{} {} {} {} 0 0 cv {} {}", m, k, c, first, dh, hex(&cv));
        } else {
            let seek = gen::hostile_seek(&mut rng);
            let olen = gen::hostile_outlen(&mut rng, 300);
            let seek = seek.min(u64::MAX - 1 - olen as u64);
            let out = specmodel::xof(&mode, &data, seek, olen.max(1));
            println!("{} {} {} 0 {} {} root {} {}", m, k, c, seek, olen.max(1), dh, hex(&out));
        }
    }
}
