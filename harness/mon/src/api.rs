//! Thin adapters between specmodel modes and the API of the crate under test.
use specmodel::Mode;

pub fn ctx_str(ctx: &[u8]) -> &str {
    core::str::from_utf8(ctx).expect("contexts are generated as valid UTF-8")
}

pub fn hasher_for(mode: &Mode) -> blake3::Hasher {
    match mode {
        Mode::Hash => blake3::Hasher::new(),
        Mode::Keyed(k) => blake3::Hasher::new_keyed(k),
        Mode::DeriveKey(c) => blake3::Hasher::new_derive_key(ctx_str(c)),
    }
}

pub fn oneshot(mode: &Mode, input: &[u8]) -> [u8; 32] {
    match mode {
        Mode::Hash => *blake3::hash(input).as_bytes(),
        Mode::Keyed(k) => *blake3::keyed_hash(k, input).as_bytes(),
        Mode::DeriveKey(c) => blake3::derive_key(ctx_str(c), input),
    }
}

pub fn mode_desc(mode: &Mode) -> String {
    match mode {
        Mode::Hash => "hash".into(),
        Mode::Keyed(k) => format!("keyed:{}", monlib::hex(k)),
        Mode::DeriveKey(c) => format!("derive:ctxlen={}", c.len()),
    }
}
