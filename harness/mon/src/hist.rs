//! History engine: random call histories on 1-4 Hasher instances, each shadowed by an
//! executable model (specmodel::Stream). After every operation the monitor queries count() and,
//! with some probability, finalize() and a finalize_xof() window, and compares with the model.
//! Used by C02 (all absorbing entry points), C04 (battery, core API only), C07 (guard-page
//! placement of every slice) and C18 (one history per thread).
use crate::api;
use crate::plat::{self, P};
use monlib::arena::{Arena, Side};
use monlib::{gen, guarded, hex, Fnv, Json, Report, Rng};
use specmodel::Stream;

#[derive(Clone, Copy, Debug)]
pub struct Cfg {
    pub max_ops: usize,
    pub max_total: usize,
    /// allow std/rayon/mmap entry points
    pub rich: bool,
    /// place every input slice / output buffer flush against a guard page
    pub guard: bool,
    pub big_chance: (u64, u64),
}

pub struct Outcome {
    pub ops: Vec<String>,
    pub transcript: u64,
    pub failed: Option<(String, String)>,
    pub max_stack_popcount: u32,
}

struct Slot {
    h: blake3::Hasher,
    m: Stream,
}

#[cfg(feature = "full")]
struct ShortReader<'a> {
    data: &'a [u8],
    pos: usize,
    sizes: Vec<usize>,
    k: usize,
    /// a reader that itself hashes (e.g. verifies per-frame checksums) with another Hasher through
    /// update_reader on the same thread: the adapters must be re-entrant
    nested: bool,
    nested_bad: bool,
}

#[cfg(feature = "full")]
impl<'a> std::io::Read for ShortReader<'a> {
    fn read(&mut self, buf: &mut [u8]) -> std::io::Result<usize> {
        self.k += 1;
        // EINTR between successful short reads (must be retried without losing data)
        if self.k % 3 == 2 && self.pos < self.data.len() {
            return Err(std::io::Error::new(std::io::ErrorKind::Interrupted, "injected EINTR"));
        }
        let want = self.sizes[self.k % self.sizes.len()].max(1);
        let n = want.min(buf.len()).min(self.data.len() - self.pos);
        if self.nested {
            let frame = &self.data[self.pos..self.pos + n.min(200)];
            let mut inner = blake3::Hasher::new();
            let ok = inner.update_reader(frame).is_ok() && *inner.finalize().as_bytes() == specmodel::hash(&specmodel::Mode::Hash, frame);
            if !ok {
                self.nested_bad = true;
            }
        }
        buf[..n].copy_from_slice(&self.data[self.pos..self.pos + n]);
        self.pos += n;
        Ok(n)
    }
}

/// A seekable file of at least 16 KiB that cannot be memory-mapped (sysfs binary attributes fail
/// with ENODEV), with its contents as read by std; None if this system has none or it is unstable.
pub fn unmappable_file() -> Option<(&'static std::path::Path, &'static [u8])> {
    static CELL: std::sync::OnceLock<Option<(std::path::PathBuf, Vec<u8>)>> = std::sync::OnceLock::new();
    CELL.get_or_init(|| {
        let mut candidates: Vec<std::path::PathBuf> = vec!["/sys/kernel/btf/vmlinux".into()];
        if let Ok(rd) = std::fs::read_dir("/sys/kernel/btf") {
            for e in rd.flatten().take(40) {
                candidates.push(e.path());
            }
        }
        for c in candidates {
            let (Ok(a), Ok(b)) = (std::fs::read(&c), std::fs::read(&c)) else { continue };
            if a != b || a.len() < 16384 || a.len() > (6 << 20) {
                continue;
            }
            let Ok(f) = std::fs::File::open(&c) else { continue };
            // really unmappable?
            let r = unsafe { libc::mmap(core::ptr::null_mut(), a.len(), libc::PROT_READ, libc::MAP_SHARED, std::os::unix::io::AsRawFd::as_raw_fd(&f), 0) };
            if r != libc::MAP_FAILED {
                unsafe { libc::munmap(r, a.len()) };
                continue;
            }
            return Some((c, a));
        }
        None
    })
    .as_ref()
    .map(|(p, b)| (p.as_path(), &b[..]))
}

fn scratch_dir() -> std::path::PathBuf {
    let d = std::env::temp_dir().join(format!("verif-mon-{}", std::process::id()));
    let _ = std::fs::create_dir_all(&d);
    d
}

pub fn cleanup_scratch() {
    let _ = std::fs::remove_dir_all(scratch_dir());
}

/// Run one history. `tag` is only used for file names.
pub fn run_history(rng: &mut Rng, cfg: &Cfg, p: P, tag: u64, rep: &mut Report) -> Outcome {
    plat::force(p);
    let out = run_inner(rng, cfg, tag, rep);
    plat::force(P::Native);
    out
}

fn run_inner(rng: &mut Rng, cfg: &Cfg, tag: u64, rep: &mut Report) -> Outcome {
    let mode = gen::mode(rng);
    let big = rng.chance(cfg.big_chance.0, cfg.big_chance.1);
    let budget = if big { cfg.max_total } else { cfg.max_total.min(96 * 1024) };
    let pool = gen::content(rng, budget.max(1));
    let mut slots: Vec<Slot> = vec![Slot { h: api::hasher_for(&mode), m: Stream::new(&mode) }];
    let mut ops: Vec<String> = vec![format!("new({})", api::mode_desc(&mode))];
    let mut tr = Fnv::new();
    let mut failed: Option<(String, String)> = None;
    let mut max_pop = 0u32;
    let nops = 1 + rng.usize_below(cfg.max_ops);
    let _ = tag;

    macro_rules! fail {
        ($class:expr, $($arg:tt)*) => {{
            if failed.is_none() { failed = Some(($class.to_string(), format!($($arg)*))); }
        }};
    }

    for _ in 0..nops {
        if failed.is_some() {
            break;
        }
        let si = rng.usize_below(slots.len());
        let remaining = budget.saturating_sub(slots[si].m.bytes.len());
        let kind = rng.below(if cfg.rich { 16 } else { 9 });
        let mut absorbed: Option<(usize, &str)> = None;
        match kind {
            // ---- absorbing ops -------------------------------------------------------------
            0..=4 | 9..=13 => {
                let n = if rng.chance(1, 6) {
                    // odd prefix then large aligned subtree: handled by successive ops naturally;
                    // here pick a large power-of-two to drive the shrink loop
                    let j = rng.usize_below(11);
                    (1024usize << j).min(remaining)
                } else {
                    gen::hostile_len(rng, remaining)
                };
                let off = if pool.len() > n { rng.usize_below(pool.len() - n + 1) } else { 0 };
                let n = n.min(pool.len());
                let src = &pool[off..off + n];
                let arena;
                let data: &[u8] = if cfg.guard {
                    let side = if rng.chance(3, 4) { Side::Right } else { Side::Left };
                    let mut a = Arena::with_data(src, side);
                    if rng.chance(1, 32) {
                        a.set_readonly(true); // (mprotect is very slow under concurrency in this VM)
                    }
                    arena = a;
                    arena.as_slice()
                } else {
                    src
                };
                let h = &mut slots[si].h;
                let name: &str;
                #[allow(unused_mut)]
                let mut special: Option<&'static [u8]> = None;
                let r: Result<Result<(), String>, String> = match kind {
                    0..=4 => {
                        name = "update";
                        guarded(|| {
                            h.update(data);
                            Ok(())
                        })
                    }
                    #[cfg(feature = "full")]
                    9 => {
                        name = "write";
                        guarded(|| {
                            let k = std::io::Write::write(h, data).map_err(|e| e.to_string())?;
                            if k != data.len() {
                                return Err(format!("Write::write consumed {} of {}", k, data.len()));
                            }
                            std::io::Write::flush(h).map_err(|e| e.to_string())
                        })
                    }
                    #[cfg(feature = "full")]
                    10 => {
                        name = "io_copy";
                        guarded(|| {
                            let mut rd = data;
                            let k = std::io::copy(&mut rd, h).map_err(|e| e.to_string())?;
                            if k != data.len() as u64 {
                                return Err(format!("io::copy moved {} of {}", k, data.len()));
                            }
                            Ok(())
                        })
                    }
                    #[cfg(feature = "full")]
                    11 => {
                        name = "update_reader";
                        let sizes: Vec<usize> = (0..1 + rng.usize_below(4)).map(|_| *rng.pick(&[1usize, 7, 63, 64, 65, 1023, 1024, 4096, 65535, 65536, 1 << 20])).collect();
                        let nested = rng.chance(1, 6);
                        guarded(|| {
                            let mut rd = ShortReader { data, pos: 0, sizes, k: 0, nested, nested_bad: false };
                            let r = h.update_reader(&mut rd).map(|_| ()).map_err(|e| e.to_string());
                            if rd.nested_bad {
                                return Err("a hasher used through update_reader inside the reader's own read() gave a wrong result".to_string());
                            }
                            r
                        })
                    }
                    #[cfg(feature = "full")]
                    12 => {
                        name = "update_rayon";
                        guarded(|| {
                            h.update_rayon(data);
                            Ok(())
                        })
                    }
                    #[cfg(feature = "full")]
                    13 if rng.chance(1, 12) && unmappable_file().is_some() => {
                        // a seekable file >= 16 KiB whose mmap() fails: must fall back to reads from
                        // the start of the file
                        let (path, bytes) = unmappable_file().unwrap();
                        let rayon = rng.chance(1, 2);
                        name = if rayon { "update_mmap_rayon(unmappable)" } else { "update_mmap(unmappable)" };
                        special = Some(bytes);
                        guarded(|| {
                            if rayon {
                                h.update_mmap_rayon(path).map(|_| ()).map_err(|e| e.to_string())
                            } else {
                                h.update_mmap(path).map(|_| ()).map_err(|e| e.to_string())
                            }
                        })
                    }
                    #[cfg(feature = "full")]
                    13 => {
                        let rayon = rng.chance(1, 2);
                        name = if rayon { "update_mmap_rayon" } else { "update_mmap" };
                        let path = scratch_dir().join(format!("h{}-{:?}", tag, std::thread::current().id()));
                        std::fs::write(&path, data).expect("scratch write");
                        let r = guarded(|| {
                            if rayon {
                                h.update_mmap_rayon(&path).map(|_| ()).map_err(|e| e.to_string())
                            } else {
                                h.update_mmap(&path).map(|_| ()).map_err(|e| e.to_string())
                            }
                        });
                        let _ = std::fs::remove_file(&path);
                        r
                    }
                    _ => {
                        name = "update";
                        guarded(|| {
                            h.update(data);
                            Ok(())
                        })
                    }
                };
                match r {
                    Ok(Ok(())) => {}
                    Ok(Err(e)) => fail!(format!("{}/error", name), "{}({}) failed: {}", name, n, e),
                    Err(msg) => fail!(format!("{}/panic", name), "{}({}) panicked: {}", name, n, msg),
                }
                match special {
                    Some(bytes) => slots[si].m.push(bytes),
                    None => slots[si].m.push(src),
                }
                absorbed = Some((n, name));
                ops.push(format!("s{}.{}({})", si, name, n));
                rep.seen("entry_points", name);
            }
            // ---- clone ---------------------------------------------------------------------
            5 | 14 => {
                if slots.len() < 4 {
                    let c = Slot { h: slots[si].h.clone(), m: slots[si].m.clone() };
                    slots.push(c);
                    ops.push(format!("s{}=s{}.clone()", slots.len() - 1, si));
                } else {
                    // overwrite a slot with a clone of another (drops the old instance)
                    let dst = rng.usize_below(slots.len());
                    if dst != si && rng.chance(1, 2) {
                        let c = Slot { h: slots[si].h.clone(), m: slots[si].m.clone() };
                        slots[dst] = c;
                        ops.push(format!("s{}=s{}.clone()", dst, si));
                    } else if dst != si {
                        // Clone::clone_from: restore a used working copy in place from another one
                        let (srch, srcm) = (slots[si].h.clone(), slots[si].m.clone());
                        match guarded(|| {
                            let mut d = slots[dst].h.clone();
                            d.clone_from(&srch);
                            d
                        }) {
                            Ok(d) => slots[dst].h = d,
                            Err(msg) => fail!("clone_from/panic", "s{}.clone_from(&s{}) panicked: {}", dst, si, msg),
                        }
                        slots[dst].m = srcm;
                        ops.push(format!("s{}.clone_from(&s{})", dst, si));
                        rep.seen("entry_points", "clone_from");
                    }
                }
            }
            // ---- queries (also issued after every op below) -----------------------------------
            _ => {
                ops.push(format!("s{}.query", si));
            }
        }

        // After every op: count() of every slot; finalize / xof of the touched slot (always
        // after an absorbing op with p=1/2, always on explicit query ops).
        for (i, s) in slots.iter().enumerate() {
            match guarded(|| s.h.count()) {
                Ok(c) if c == s.m.bytes.len() as u64 => {}
                Ok(c) => fail!("count/mismatch", "s{}.count()={} but {} bytes absorbed (after {:?})", i, c, s.m.bytes.len(), absorbed),
                Err(msg) => fail!("count/panic", "s{}.count() panicked: {}", i, msg),
            }
        }
        let do_fin = absorbed.is_none() || rng.chance(1, 2);
        if do_fin && failed.is_none() {
            let s = &mut slots[si];
            let node = s.m.root();
            let want = node.root_hash();
            let before = if rng.chance(1, 4) { Some(s.h.clone()) } else { None };
            match guarded(|| (*s.h.finalize().as_bytes(), *s.h.finalize().as_bytes())) {
                Ok((a, b)) => {
                    tr.add(&a);
                    if a != want {
                        fail!("finalize/mismatch", "s{}.finalize()={} want {} after {} bytes", si, hex(&a), hex(&want), s.m.bytes.len());
                    } else if a != b {
                        fail!("finalize/not-idempotent", "second finalize differs: {} vs {}", hex(&a), hex(&b));
                    }
                }
                Err(msg) => fail!("finalize/panic", "s{}.finalize() panicked after {} bytes: {}", si, s.m.bytes.len(), msg),
            }
            let n = s.m.bytes.len();
            let chunks = (n + 1023) / 1024;
            max_pop = max_pop.max((chunks as u64).count_ones());
            if rng.chance(2, 3) {
                let seek = if rng.chance(3, 4) { rng.below(200) } else { gen::hostile_seek(rng) };
                let len = gen::hostile_outlen(rng, 2100);
                let seek = seek.min(u64::MAX - 1 - len as u64);
                let wantx = node.root_bytes(seek, len);
                let mut outa = if cfg.guard { Some(Arena::new(len, if rng.chance(1, 2) { Side::Right } else { Side::Left }, rng.u64())) } else { None };
                let mut outv = vec![0u8; if cfg.guard { 0 } else { len }];
                let r = guarded(|| {
                    let mut rd = s.h.finalize_xof();
                    rd.set_position(seek);
                    match outa.as_mut() {
                        Some(a) => rd.fill(a.as_mut_slice()),
                        None => rd.fill(&mut outv),
                    }
                    rd.position()
                });
                let got: &[u8] = match outa.as_ref() {
                    Some(a) => a.as_slice(),
                    None => &outv,
                };
                match r {
                    Ok(pos) => {
                        tr.add(got);
                        if got != &wantx[..] {
                            fail!("xof/mismatch", "s{}.finalize_xof() seek={} len={} differs from spec after {} bytes", si, seek, len, n);
                        } else if pos != seek + len as u64 {
                            fail!("xof/position", "position {} after seek {} + fill {}", pos, seek, len);
                        }
                        if let Some(a) = outa.as_ref() {
                            if let Some(off) = a.canary_violation(0..len) {
                                fail!("xof/canary", "fill({}) wrote outside its destination at offset {}", len, off);
                            }
                        }
                    }
                    Err(msg) => fail!("xof/panic", "finalize_xof seek={} len={} panicked: {}", seek, len, msg),
                }
                ops.push(format!("s{}.xof({},{})", si, seek, len));
            }
            // purity: a clone taken before the finalize calls and the original after them must
            // keep answering identically (checked on a continuation fed to both)
            if let Some(mut c) = before {
                let extra = gen::hostile_len(rng, 3000).min(pool.len());
                let suffix = &pool[..extra];
                let r = guarded(|| {
                    let mut o = s.h.clone();
                    o.update(suffix);
                    c.update(suffix);
                    (*o.finalize().as_bytes(), *c.finalize().as_bytes(), o.count(), c.count())
                });
                match r {
                    Ok((a, b, ca, cb)) => {
                        if a != b || ca != cb {
                            fail!("finalize/impure", "original after finalize and clone taken before diverge on a {}-byte continuation", extra);
                        }
                    }
                    Err(msg) => fail!("finalize/panic", "continuation after finalize panicked: {}", msg),
                }
            }
        }
    }
    for s in &slots {
        tr.add_u64(s.m.bytes.len() as u64);
    }
    Outcome { ops, transcript: tr.0, failed, max_stack_popcount: max_pop }
}

pub fn outcome_sample(idx: u64, p: P, o: &Outcome) -> Json {
    Json::obj(vec![
        ("case", Json::Int(idx as i128)),
        ("platform", Json::s(p.name())),
        ("ops", Json::Arr(o.ops.iter().take(40).map(|s| Json::s(s.clone())).collect())),
    ])
}
