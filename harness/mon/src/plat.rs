//! Platform enumeration and forcing through hook H1.
use blake3::platform::Platform;

#[derive(Clone, Copy, Debug, PartialEq, Eq, PartialOrd, Ord, Hash)]
pub enum P {
    Native,
    Portable,
    Sse2,
    Sse41,
    Avx2,
    Avx512,
}

impl P {
    pub fn name(self) -> &'static str {
        match self {
            P::Native => "native",
            P::Portable => "portable",
            P::Sse2 => "sse2",
            P::Sse41 => "sse41",
            P::Avx2 => "avx2",
            P::Avx512 => "avx512",
        }
    }
    pub fn parse(s: &str) -> Option<P> {
        Some(match s {
            "native" => P::Native,
            "portable" => P::Portable,
            "sse2" => P::Sse2,
            "sse41" => P::Sse41,
            "avx2" => P::Avx2,
            "avx512" => P::Avx512,
            _ => return None,
        })
    }
    /// The `Platform` value, if this CPU (or the interpreter configuration) can execute it.
    pub fn platform(self) -> Option<Platform> {
        #[cfg(any(target_arch = "x86", target_arch = "x86_64"))]
        {
            return self.platform_x86();
        }
        #[cfg(not(any(target_arch = "x86", target_arch = "x86_64")))]
        {
            // foreign targets (interpreted by Miri): only the portable implementation exists
            match self {
                P::Portable => Some(Platform::Portable),
                _ => None,
            }
        }
    }

    #[cfg(any(target_arch = "x86", target_arch = "x86_64"))]
    fn platform_x86(self) -> Option<Platform> {
        match self {
            P::Native => None,
            P::Portable => Some(Platform::Portable),
            #[cfg(not(miri))]
            P::Sse2 => Platform::sse2(),
            #[cfg(not(miri))]
            P::Sse41 => Platform::sse41(),
            #[cfg(not(miri))]
            P::Avx2 => Platform::avx2(),
            // Under Miri the detection functions return false by design; the interpreter
            // executes whatever target features the build enables.
            #[cfg(miri)]
            P::Sse2 => if cfg!(target_feature = "sse2") { Some(Platform::SSE2) } else { None },
            #[cfg(miri)]
            P::Sse41 => if cfg!(target_feature = "sse4.1") { Some(Platform::SSE41) } else { None },
            #[cfg(miri)]
            P::Avx2 => if cfg!(target_feature = "avx2") { Some(Platform::AVX2) } else { None },
            #[cfg(all(not(feature = "pure"), not(miri)))]
            P::Avx512 => Platform::avx512(),
            #[cfg(any(feature = "pure", miri))]
            P::Avx512 => None,
        }
    }

    pub fn available(self) -> bool {
        self == P::Native || self.platform().is_some()
    }
}

pub const ALL_FORCED: [P; 5] = [P::Portable, P::Sse2, P::Sse41, P::Avx2, P::Avx512];

pub fn available_forced() -> Vec<P> {
    ALL_FORCED.iter().copied().filter(|p| p.available()).collect()
}

/// Force the platform for the calling thread (std) or the process (no_std builds).
pub fn force(p: P) {
    let v = if p == P::Native { None } else { Some(p.platform().expect("platform not available")) };
    #[cfg(feature = "std")]
    blake3::platform::verif_force_platform(v);
    #[cfg(not(feature = "std"))]
    blake3::platform::verif_force_platform_global(v);
}

/// What `Platform::detect()` currently answers, as a string.
pub fn detected_name() -> String {
    format!("{:?}", Platform::detect())
}
