//! C09: subtree hashing composes for every valid decomposition; helper functions.
use crate::api;
use crate::plat::{self, P};
use crate::run::{self, Args};
use blake3::hazmat::{self, HasherExt};
use monlib::{gen, guarded, hex, Json, Report, Rng};
use specmodel::Mode;

struct Cx<'a> {
    mode: &'a Mode,
    ctx_key: [u8; 32],
    data: &'a [u8],
    leaves: u64,
    merges: u64,
    via_context_key: bool,
    max_leaf: usize,
}

impl<'a> Cx<'a> {
    fn hmode(&self) -> hazmat::Mode<'_> {
        match self.mode {
            Mode::Hash => hazmat::Mode::Hash,
            Mode::Keyed(k) => hazmat::Mode::KeyedHash(k),
            Mode::DeriveKey(_) => hazmat::Mode::DeriveKeyMaterial(&self.ctx_key),
        }
    }
    fn hasher(&self) -> blake3::Hasher {
        match self.mode {
            Mode::DeriveKey(_) if self.via_context_key => blake3::Hasher::new_from_context_key(&self.ctx_key),
            m => api::hasher_for(m),
        }
    }
    /// Chaining value of data[off..off+len] computed through some valid decomposition.
    fn cv(&mut self, rng: &mut Rng, off: usize, len: usize) -> [u8; 32] {
        let must_split = len > self.max_leaf;
        if len > 1024 && (must_split || rng.chance(2, 3)) {
            let l = hazmat::left_subtree_len(len as u64) as usize;
            let a = self.cv(rng, off, l);
            let b = self.cv(rng, off + l, len - l);
            self.merges += 1;
            hazmat::merge_subtrees_non_root(&a, &b, self.hmode())
        } else {
            self.leaves += 1;
            let mut h = self.hasher();
            if rng.chance(1, 4) {
                // re-pointing a hasher that has no input yet is legal: a decoy offset first
                h.set_input_offset(1024 * (1 + rng.below(1 << 20)));
            }
            h.set_input_offset(off as u64);
            if rng.chance(1, 5) {
                // a working copy restored in place from a template that points at this subtree,
                // after it was used for something else somewhere else
                let template = h.clone();
                let mut work = self.hasher();
                work.set_input_offset(1024 * (1 + rng.below(1 << 30)));
                let k = rng.usize_below(3000);
                work.update(&self.data[..k.min(self.data.len()).min(1024)]);
                work.clone_from(&template);
                h = work;
            }
            let mut fed = 0;
            while fed < len {
                let n = if rng.chance(1, 3) { len - fed } else { gen::hostile_len(rng, len - fed) };
                h.update(&self.data[off + fed..off + fed + n]);
                fed += n;
            }
            if rng.chance(1, 3) {
                // the read-loop idiom: one more update with the empty slice after the last bytes
                h.update(&[]);
            }
            h.finalize_non_root()
        }
    }
}

fn decomposition_case(args: &Args, idx: u64, p: P, rng: &mut Rng, rep: &mut Report) {
    let mode = gen::mode(rng);
    let max = if args.thorough { 4 << 20 } else { 256 * 1024 };
    let n = match rng.below(5) {
        0 => 1025 + rng.usize_below(4000),
        1 => 1024 * (2 + rng.usize_below(70)) + [0usize, 1, 1023][rng.usize_below(3)] - 1,
        2 => (1024usize << (1 + rng.usize_below(8))) + [0usize, 1, 2][rng.usize_below(3)] - 1,
        _ => 1025 + rng.usize_below(max - 1025),
    }
    .max(1025);
    let data = gen::content(rng, n);
    let ctx_key = match &mode {
        Mode::DeriveKey(c) => specmodel::Mode::context_key(c),
        _ => [0; 32],
    };
    if let Mode::DeriveKey(c) = &mode {
        let got = hazmat::hash_derive_key_context(api::ctx_str(c));
        if got != ctx_key {
            rep.violation("C09/hash_derive_key_context/mismatch", format!("context of {} bytes: got {} want {}", c.len(), hex(&got), hex(&ctx_key)), args.replay_args(idx, p));
        }
    }
    let strategy = rng.below(3);
    let want_node = specmodel::root_node(&mode, &data);
    let want = want_node.root_hash();
    let seek = gen::hostile_seek(rng).min(u64::MAX - 400);
    let xlen = gen::hostile_outlen(rng, 300);
    let want_x = want_node.root_bytes(seek, xlen);
    let via = rng.chance(1, 2);
    let r = guarded(|| {
        let mut cx = Cx { mode: &mode, ctx_key, data: &data, leaves: 0, merges: 0, via_context_key: via, max_leaf: if rng.chance(1, 4) { 1024 << rng.usize_below(4) } else { usize::MAX } };
        let (a, b) = if strategy < 2 {
            let l = hazmat::left_subtree_len(n as u64) as usize;
            (cx.cv(rng, 0, l), cx.cv(rng, l, n - l))
        } else {
            // fixed power-of-two groups, merged layer by layer (odd group promoted)
            let g = 1024usize << rng.usize_below(7);
            let mut layer: Vec<[u8; 32]> = Vec::new();
            let mut off = 0;
            while off < n {
                let len = g.min(n - off);
                cx.max_leaf = usize::MAX;
                let mut h = cx.hasher();
                h.set_input_offset(off as u64);
                h.update(&data[off..off + len]);
                layer.push(h.finalize_non_root());
                cx.leaves += 1;
                off += len;
            }
            if layer.len() == 1 {
                // a single group covers everything: fall back to one recursive split
                let l = hazmat::left_subtree_len(n as u64) as usize;
                (cx.cv(rng, 0, l), cx.cv(rng, l, n - l))
            } else {
                while layer.len() > 2 {
                    let mut next = Vec::new();
                    for pair in layer.chunks(2) {
                        if pair.len() == 2 {
                            next.push(hazmat::merge_subtrees_non_root(&pair[0], &pair[1], cx.hmode()));
                            cx.merges += 1;
                        } else {
                            next.push(pair[0]);
                        }
                    }
                    layer = next;
                }
                (layer[0], layer[1])
            }
        };
        let root = *hazmat::merge_subtrees_root(&a, &b, cx.hmode()).as_bytes();
        let mut xo = vec![0u8; xlen];
        let mut rd = hazmat::merge_subtrees_root_xof(&a, &b, cx.hmode());
        rd.set_position(seek);
        rd.fill(&mut xo);
        (root, xo, cx.leaves, cx.merges)
    });
    rep.eval(format!("decomp/{}/{}/{}/{}", gen::mode_name(&mode), n, strategy, p.name()));
    match r {
        Ok((root, xo, leaves, merges)) => {
            rep.count("leaves", leaves);
            rep.count("merges", merges);
            if root != want {
                rep.violation(format!("C09/decomposition/{}/root-mismatch", gen::mode_name(&mode)), format!("len={} strategy={} via_context_key={} platform={} got={} want={}", n, strategy, via, p.name(), hex(&root), hex(&want)), args.replay_args(idx, p));
            } else if xo != want_x {
                rep.violation(format!("C09/decomposition/{}/xof-mismatch", gen::mode_name(&mode)), format!("len={} seek={} xlen={} platform={}", n, seek, xlen, p.name()), args.replay_args(idx, p));
            }
            if idx % 977 == 0 {
                rep.sample(Json::obj(vec![("kind", Json::s("decomposition")), ("len", Json::u(n)), ("strategy", Json::Int(strategy as i128)), ("leaves", Json::Int(leaves as i128)), ("merges", Json::Int(merges as i128)), ("mode", Json::s(gen::mode_name(&mode)))]));
            }
        }
        Err(msg) => rep.violation(format!("C09/decomposition/{}/panic", gen::mode_name(&mode)), format!("len={} strategy={} platform={} panic={}", n, strategy, p.name(), msg), args.replay_args(idx, p)),
    }
}

fn big_counter(rng: &mut Rng) -> u64 {
    let c = match rng.below(7) {
        0 => (1u64 << 32) - rng.below(41),
        1 => (1u64 << 32) + rng.below(41),
        2 => (rng.below(1 << 20) << 32).wrapping_add(rng.below(81)).wrapping_sub(40),
        3 => (1u64 << 53) - 40 + rng.below(81),
        4 => (1u64 << 54) - 1 - rng.below(200),
        5 => rng.below(1 << 54),
        _ => rng.below(5000),
    };
    c & ((1u64 << 54) - 1)
}

fn offset_case(args: &Args, idx: u64, p: P, rng: &mut Rng, rep: &mut Report) {
    let mode = gen::mode(rng);
    // choose a counter, then a length that fits max_subtree_len and 2^64
    let mut counter = big_counter(rng);
    if rng.chance(1, 2) {
        // make room for a multi-chunk subtree: clear low bits
        let tz = rng.below(7);
        counter &= !((1u64 << tz) - 1);
    }
    let tz = if counter == 0 { 54 } else { counter.trailing_zeros() as u64 };
    let max_chunks_tree = 1u128 << tz.min(54);
    let max_chunks_space = (1u128 << 54) - counter as u128;
    let max_chunks = max_chunks_tree.min(max_chunks_space).min(64) as usize;
    let chunks = 1 + rng.usize_below(max_chunks);
    let len = if rng.chance(1, 2) { chunks * 1024 } else { (chunks - 1) * 1024 + 1 + rng.usize_below(1024) };
    let data = gen::content(rng, len);
    let (key, flags) = mode.key_flags();
    let want = specmodel::subtree(&key, &data, counter, flags).cv_bytes();
    let off = counter * 1024;
    let r = guarded(|| {
        let mut h = api::hasher_for(&mode);
        h.set_input_offset(off);
        let mut fed = 0;
        while fed < len {
            let n = if rng.chance(1, 2) { len - fed } else { gen::hostile_len(rng, len - fed) };
            h.update(&data[fed..fed + n]);
            fed += n;
        }
        if rng.chance(1, 3) {
            h.update(&[]);
        }
        (h.finalize_non_root(), h.count())
    });
    rep.eval(format!("offset/{}/{}/{}/{}", gen::mode_name(&mode), counter, len, p.name()));
    if counter >= (1 << 32) {
        rep.count("subtrees_at_counter>=2^32", 1);
    }
    match r {
        Ok((cv, count)) => {
            if cv != want {
                rep.violation(format!("C09/subtree-cv/{}/mismatch", gen::mode_name(&mode)), format!("chunk_counter={} len={} platform={} got={} want={}", counter, len, p.name(), hex(&cv), hex(&want)), args.replay_args(idx, p));
            } else if count != len as u64 {
                rep.violation("C09/subtree-cv/count", format!("count()={} after {} bytes at offset {}", count, len, off), args.replay_args(idx, p));
            }
            if idx % 1201 == 0 {
                rep.sample(Json::obj(vec![("kind", Json::s("subtree-cv")), ("chunk_counter", Json::Int(counter as i128)), ("len", Json::u(len)), ("cv", Json::s(hex(&cv)))]));
            }
        }
        Err(msg) => rep.violation(format!("C09/subtree-cv/{}/panic", gen::mode_name(&mode)), format!("chunk_counter={} len={} platform={} panic={}", counter, len, p.name(), msg), args.replay_args(idx, p)),
    }
}

fn helper_sweep(args: &Args, rep: &mut Report) {
    // left_subtree_len: n = 2^k + d, n = 2^64-1-d, random n > 1024
    let mut ns: Vec<u64> = Vec::new();
    for k in 10..=63u32 {
        for d in -3i64..=3 {
            let n = (1u64 << k) as i128 + d as i128;
            if n > 1024 {
                ns.push(n as u64);
            }
        }
    }
    for d in 0..=4u64 {
        ns.push(u64::MAX - d);
    }
    let mut rng = Rng::new(args.seed, 0x9E1);
    let nrand = args.n(1_000_000, 50_000_000);
    let check_left = |n: u64, rep: &mut Report| {
        let want = specmodel::left_len(n as u128);
        match guarded(|| hazmat::left_subtree_len(n)) {
            Ok(g) if g as u128 == want => {}
            Ok(g) => rep.violation("C09/left_subtree_len/mismatch", format!("left_subtree_len({}) = {} but the largest power of two below it is {}", n, g, want), vec!["c09".into(), "--helper-n".into(), n.to_string()]),
            Err(m) => rep.violation("C09/left_subtree_len/panic", format!("left_subtree_len({}) panicked: {}", n, m), vec!["c09".into(), "--helper-n".into(), n.to_string()]),
        }
        rep.evaluations += 1;
    };
    if let Some(n) = args.get("helper-n") {
        check_left(n.parse().expect("helper-n"), rep);
        return;
    }
    for n in &ns {
        check_left(*n, rep);
        rep.distinct.insert(format!("left/{}", n));
    }
    for _ in 0..nrand {
        let sh = rng.below(54);
        let n = (rng.u64() >> sh).max(1025);
        check_left(n, rep);
    }
    rep.count("left_subtree_len_random", nrand);
    // max_subtree_len: o = 1024 * odd * 2^t for all t <= 53; o = 0 -> None
    match guarded(|| hazmat::max_subtree_len(0)) {
        Ok(None) => {}
        Ok(Some(x)) => rep.violation("C09/max_subtree_len/zero", format!("max_subtree_len(0) = Some({})", x), vec![]),
        Err(m) => rep.violation("C09/max_subtree_len/panic", format!("max_subtree_len(0) panicked: {}", m), vec![]),
    }
    let per_t = args.n(300, 20_000);
    for t in 0..=53u32 {
        for j in 0..per_t {
            let room = 54 - t; // odd part < 2^room
            let odd = if j == 0 { 1 } else if j == 1 { (1u64 << room) - 1 } else { rng.below(1u64 << room) | 1 };
            let c = (odd as u128) << t;
            if c >= (1u128 << 54) {
                continue;
            }
            let o = (c as u64) * 1024;
            let want = 1024u128 << t;
            match guarded(|| hazmat::max_subtree_len(o)) {
                Ok(Some(g)) if g as u128 == want => {}
                Ok(g) => rep.violation("C09/max_subtree_len/mismatch", format!("max_subtree_len({}) = {:?}, expected {}", o, g, want), vec![]),
                Err(m) => rep.violation("C09/max_subtree_len/panic", format!("max_subtree_len({}) panicked: {}", o, m), vec![]),
            }
            rep.evaluations += 1;
        }
        rep.distinct.insert(format!("max/t{}", t));
    }
    rep.sample(Json::obj(vec![("kind", Json::s("helpers")), ("left_subtree_len_structured", Json::u(ns.len())), ("left_subtree_len_random", Json::Int(nrand as i128)), ("max_subtree_len_per_t", Json::Int(per_t as i128))]));
}

pub fn run(args: &Args) -> Report {
    let n_dec = args.n(4000, 150_000);
    let n_off = args.n(20_000, 1_000_000);
    let plats = args.platforms_or(&[P::Native, P::Portable]);
    if args.get("helper-n").is_some() {
        let mut rep = Report::new();
        helper_sweep(args, &mut rep);
        return rep;
    }
    let mut rep = run::run_cases(args, 9, n_dec + n_off, |idx, rng, rep| {
        let p = plats[(idx % plats.len() as u64) as usize];
        plat::force(p);
        if idx < n_dec {
            decomposition_case(args, idx, p, rng, rep);
        } else {
            offset_case(args, idx, p, rng, rep);
        }
        plat::force(P::Native);
    });
    if args.only.is_none() {
        helper_sweep(args, &mut rep);
    }
    rep
}

pub const RULE: &str = "evaluations = random valid tree decompositions (recursive splits at left_subtree_len with random nesting and per-leaf update splits; fixed power-of-two groups merged layer by layer) compared with specmodel's whole-input hash/XOF + subtree chaining values at chunk counters around 2^32, 2^53, 2^54 compared with specmodel + left_subtree_len/max_subtree_len against big-int definitions; distinct = distinct (kind, mode, length/counter, strategy, platform)";
