//! C17: Debug prints no secrets; zeroize leaves none behind.
//! (a) non-interference: the same public history (lengths, positions, mode, platform) run with two
//!     independent secret assignments (key, context, input bytes) must give identical Debug
//!     strings; plus a search of the string for renderings of secret words.
//! (b) residue scan: after zeroize() the raw bytes of the object are scanned for any 8-byte window
//!     of a secret-derived value the object could hold (key, chunk CV, buffered input, every subtree
//!     CV incl. popped stack entries, parent block, output block).
#![allow(deprecated)]
use crate::api;
use crate::plat::{self, P};
use crate::run::{self, Args};
use monlib::{gen, guarded, hex, Json, Report, Rng};
use specmodel::{Mode, Stream};
use zeroize::Zeroize;

fn raw_bytes<T>(t: &T) -> Vec<u8> {
    let n = core::mem::size_of::<T>();
    let mut v = vec![0u8; n];
    let p = t as *const T as *const u8;
    for i in 0..n {
        // volatile byte reads of the object representation (padding included)
        v[i] = unsafe { core::ptr::read_volatile(p.add(i)) };
    }
    v
}

/// All 8-byte windows of `secret` that have fewer than 4 zero bytes.
fn windows(secret: &[u8], out: &mut std::collections::HashSet<[u8; 8]>) {
    if secret.len() < 8 {
        return;
    }
    for w in secret.windows(8) {
        if w.iter().filter(|b| **b == 0).count() < 4 {
            out.insert(w.try_into().unwrap());
        }
    }
}

fn scan(obj: &[u8], secrets: &std::collections::HashSet<[u8; 8]>) -> Option<(usize, [u8; 8])> {
    if obj.len() < 8 {
        return None;
    }
    for (i, w) in obj.windows(8).enumerate() {
        let a: [u8; 8] = w.try_into().unwrap();
        if secrets.contains(&a) {
            return Some((i, a));
        }
    }
    None
}

/// Every secret-derived value a Hasher that absorbed `m` could be holding.
fn hasher_secrets(mode: &Mode, m: &mut Stream) -> std::collections::HashSet<[u8; 8]> {
    let mut s = std::collections::HashSet::new();
    let (key, flags) = mode.key_flags();
    windows(&specmodel::cv_bytes(&key), &mut s);
    if let Mode::Keyed(k) = mode {
        windows(k, &mut s);
    }
    let n = m.bytes.len();
    // every chunk's running CV after each full block, and every chunk CV
    let nchunks = (n + 1023) / 1024;
    let bytes = m.bytes.clone();
    for c in 0..nchunks.max(1) {
        let lo = c * 1024;
        let hi = (lo + 1024).min(n);
        let chunk = &bytes[lo.min(n)..hi];
        let mut h = key;
        let nblocks = (chunk.len() + 63) / 64;
        for b in 0..nblocks {
            let blo = b * 64;
            let bhi = (blo + 64).min(chunk.len());
            let mut block = [0u8; 64];
            block[..bhi - blo].copy_from_slice(&chunk[blo..bhi]);
            // buffered input bytes are secrets too
            windows(&chunk[blo..bhi], &mut s);
            let mut f = flags;
            if b == 0 {
                f |= specmodel::CHUNK_START;
            }
            if b == nblocks - 1 {
                f |= specmodel::CHUNK_END;
            }
            let o = specmodel::compress(&h, &block, c as u64, (bhi - blo) as u32, f);
            // intermediate CV (without CHUNK_END) is what chunk_state.cv holds
            if b != nblocks - 1 {
                let o2 = specmodel::compress(&h, &block, c as u64, 64, f & !specmodel::CHUNK_END);
                h = [o2[0], o2[1], o2[2], o2[3], o2[4], o2[5], o2[6], o2[7]];
                windows(&specmodel::cv_bytes(&h), &mut s);
            } else {
                let cv = [o[0], o[1], o[2], o[3], o[4], o[5], o[6], o[7]];
                windows(&specmodel::cv_bytes(&cv), &mut s);
                if bhi - blo == 64 {
                    // a full last block may also have been compressed without CHUNK_END
                    let o2 = specmodel::compress(&h, &block, c as u64, 64, f & !specmodel::CHUNK_END);
                    windows(&specmodel::cv_bytes(&[o2[0], o2[1], o2[2], o2[3], o2[4], o2[5], o2[6], o2[7]]), &mut s);
                }
            }
        }
    }
    // every CV of a complete power-of-two subtree aligned to its size, and the merged right edge
    let full = n / 1024;
    let mut size = 2;
    while size <= full.max(1) {
        let mut start = 0;
        while start + size <= full {
            let node = specmodel::subtree(&key, &bytes[start * 1024..(start + size) * 1024], start as u64, flags);
            windows(&node.cv_bytes(), &mut s);
            windows(&node.block, &mut s);
            start += size;
        }
        size *= 2;
    }
    let root = m.root();
    windows(&root.block, &mut s);
    windows(&root.root_bytes(0, 64), &mut s);
    windows(&root.cv_bytes(), &mut s);
    s
}

/// Wipe-then-die, the pattern zeroize exists for: nothing reads the object after the wipe, so an
/// optimiser is free to delete any wipe that is not volatile. Observed by the `free` interposer.
#[cfg(not(miri))]
#[inline(never)]
fn die_zeroized<T: Zeroize>(x: T) {
    crate::scanalloc::set_limit(core::mem::size_of::<T>());
    let mut b = std::hint::black_box(Box::new(x));
    b.zeroize();
    drop(b);
}
#[cfg(not(miri))]
#[inline(never)]
fn die_plain<T>(x: T) {
    crate::scanalloc::set_limit(core::mem::size_of::<T>());
    let b = std::hint::black_box(Box::new(x));
    drop(b);
}

fn public_history(rng: &mut Rng) -> Vec<usize> {
    let n = 1 + rng.usize_below(6);
    (0..n).map(|_| gen::hostile_len(rng, 20_000)).collect()
}

pub fn run(args: &Args) -> Report {
    let total = args.n(12_000, 400_000);
    let plats = args.platforms_or(&[P::Native, P::Portable]);
    run::run_cases(args, 17, total, |idx, rng, rep| {
        let p = plats[(idx % plats.len() as u64) as usize];
        plat::force(p);
        let which = rng.below(3); // mode class is public
        let lens = public_history(rng);
        let seek = gen::hostile_seek(rng).min(u64::MAX - 5000);
        let readlen = gen::hostile_outlen(rng, 300);
        let ctxlen = rng.usize_below(80);
        let chunk_counter = rng.u64() >> rng.below(64);
        let guts_len = rng.usize_below(1025);
        let prev_len = if rng.chance(1, 3) { 1025 + rng.usize_below(40 * 1024) } else { 0 };
        let mut dbg: Vec<[String; 6]> = Vec::new();
        let mut fail: Option<(String, String)> = None;
        for trial in 0..2 {
            // two independent secret assignments for the same public history
            let mode = match which {
                0 => Mode::Hash,
                1 => Mode::Keyed(gen::key(rng)), // includes the all-zero and all-0xFF keys
                _ => Mode::DeriveKey((0..ctxlen).map(|_| b'a' + rng.below(26) as u8).collect()),
            };
            let mut h = api::hasher_for(&mode);
            let mut m = Stream::new(&mode);
            // a previous life of the same object (public: its length): another message absorbed and
            // then reset() away. Its chaining values are secrets too, and reset() need not wipe them,
            // but zeroize() must.
            let mut prev = Stream::new(&mode);
            if prev_len > 0 {
                let d = rng.bytes(prev_len);
                h.update(&d);
                prev.push(&d);
                h.reset();
            }
            for &n in &lens {
                let d = rng.bytes(n);
                h.update(&d);
                m.push(&d);
            }
            let mut rd = h.finalize_xof();
            rd.set_position(seek);
            let mut buf = vec![0u8; readlen];
            rd.fill(&mut buf);
            let mut cs = blake3::guts::ChunkState::new(chunk_counter);
            cs.update(&rng.bytes(guts_len));
            dbg.push([format!("{:?}", h), format!("{:#?}", h), format!("{:?}", rd), format!("{:#?}", rd), format!("{:?}", cs), format!("{:#?}", cs)]);
            // renderings of secret words must not occur in the strings
            let (key, _) = mode.key_flags();
            let mut needles: Vec<String> = Vec::new();
            if which != 0 {
                for w in key.iter() {
                    needles.push(format!("{}", w));
                    needles.push(format!("{:x}", w));
                }
            }
            let root = m.root();
            for w in root.cv().iter().chain(root.h.iter().filter(|_| which != 0)) {
                needles.push(format!("{}", w));
                needles.push(format!("{:x}", w));
            }
            needles.push(hex(&root.root_hash()[..4]));
            for s in dbg.last().unwrap().iter() {
                for n in &needles {
                    if n.len() >= 7 && s.contains(n.as_str()) {
                        fail = Some(("debug/secret-rendered".into(), format!("Debug output {:?} contains the secret-derived rendering {}", s, n)));
                    }
                }
            }
            // ---- (b) residue scan, on this trial's objects --------------------------------
            if trial == 0 {
                let secrets = hasher_secrets(&mode, &mut m);
                rep.count("secret_windows", secrets.len() as u64);
                // positive control: the same scan on the object *before* zeroize must find residue,
                // otherwise the scanner is blind (harness error, not a verdict)
                // a live Hasher certainly holds one of the windows if its key has one (the all-zero
                // key has none: windows with 4+ zero bytes are not searched for) or if it buffers
                // 8+ input bytes
                let must_hold = {
                    let mut kw = std::collections::HashSet::new();
                    windows(&specmodel::cv_bytes(&mode.key_flags().0), &mut kw);
                    let n = m.bytes.len();
                    !kw.is_empty() || (n >= 8 && (n % 64 == 0 || n % 64 >= 8))
                };
                if idx % 16 == 0 && must_hold {
                    if scan(&raw_bytes(&h), &secrets).is_some() {
                        rep.count("positive_controls_found", 1);
                    } else {
                        rep.count("harness_panics", 1);
                        rep.inconclusive.push(format!("residue scanner found nothing in a live Hasher (case {})", idx));
                    }
                }
                let r = guarded(|| {
                    let mut hz = h.clone();
                    hz.zeroize();
                    let rb = raw_bytes(&hz);
                    let mut rz = rd.clone();
                    rz.zeroize();
                    let rrb = raw_bytes(&rz);
                    let mut hashz = h.finalize();
                    let hv = *hashz.as_bytes();
                    hashz.zeroize();
                    let hb = raw_bytes(&hashz);
                    (rb, rrb, hb, hv)
                });
                match r {
                    Ok((rb, rrb, hb, hv)) => {
                        rep.count("object_bytes_scanned", (rb.len() + rrb.len() + hb.len()) as u64);
                        if let Some((off, w)) = scan(&rb, &secrets) {
                            fail = Some(("zeroize/hasher-residue".into(), format!("after zeroize() the Hasher object still holds secret-derived bytes {} at offset {} of {} (inputs {:?}, mode {})", hex(&w), off, rb.len(), lens, gen::mode_name(&mode))));
                        }
                        let mut rs = secrets.clone();
                        windows(&buf, &mut rs);
                        if let Some((off, w)) = scan(&rrb, &rs) {
                            fail = Some(("zeroize/reader-residue".into(), format!("after zeroize() the OutputReader object still holds secret-derived bytes {} at offset {} of {}", hex(&w), off, rrb.len())));
                        }
                        if hb.iter().any(|b| *b != 0) && hv != [0u8; 32] {
                            fail = Some(("zeroize/hash-residue".into(), format!("after zeroize() the Hash object holds {}", hex(&hb))));
                        }
                    }
                    Err(p) => fail = Some(("zeroize/panic".into(), p)),
                }
                // ---- (d) the object itself (not a clone: a clone copies only the live stack
                // entries), wiped in place after everything else has been observed -----------
                let mut all = secrets.clone();
                if prev_len > 0 {
                    all.extend(hasher_secrets(&mode, &mut prev));
                }
                let inplace = {
                    let mut hz = unsafe { core::ptr::read(&h) }; // bitwise image, stale slots included
                    let r = guarded(|| {
                        hz.zeroize();
                        raw_bytes(&hz)
                    });
                    core::mem::forget(hz);
                    r
                };
                match inplace {
                    Ok(rb) => {
                        rep.count("object_bytes_scanned", rb.len() as u64);
                        if let Some((off, w)) = scan(&rb, &all) {
                            fail = Some(("zeroize/hasher-residue".into(), format!("after zeroize() the Hasher (bitwise image of the used object, previous life of {} bytes before reset(), then inputs {:?}) still holds secret-derived bytes {} at offset {} of {}", prev_len, lens, hex(&w), off, rb.len())));
                        }
                    }
                    Err(p) => fail = Some(("zeroize/panic".into(), p)),
                }
                // ---- (c) what is left in a heap block when a zeroized object dies -------------
                // Reading an object back keeps its wiping stores alive; the allocator that receives
                // the dying block sees what the optimiser really left there.
                #[cfg(not(miri))]
                {
                    let mut needles: Vec<[u8; 8]> = secrets.iter().copied().collect();
                    let hv = *h.finalize().as_bytes();
                    let mut hs = std::collections::HashSet::new();
                    windows(&hv, &mut hs);
                    windows(&buf, &mut hs);
                    needles.extend(hs.into_iter());
                    // Padding bytes of the boxed copy hold whatever the move copied there (harness
                    // stack garbage, possibly secret-derived) and are not the object's data. Every
                    // run of padding in these types is shorter than 8 bytes, so an 8-byte window
                    // always covers a data byte, and a wiped data byte is zero: searching only for
                    // windows without any zero byte cannot hit a fully wiped object.
                    needles.retain(|w| w.iter().all(|b| *b != 0));
                    let control = idx % 16 == 0;
                    let r = guarded(|| {
                        crate::scanalloc::freed_blocks_holding(needles, || {
                            let mut found = [0u64; 3];
                            let f0 = crate::scanalloc::found_so_far();
                            if control {
                                die_plain(h.clone());
                            } else {
                                die_zeroized(h.clone());
                            }
                            let f1 = crate::scanalloc::found_so_far();
                            if control {
                                die_plain(rd.clone());
                            } else {
                                die_zeroized(rd.clone());
                            }
                            let f2 = crate::scanalloc::found_so_far();
                            if control {
                                die_plain(h.finalize());
                            } else {
                                die_zeroized(h.finalize());
                            }
                            let f3 = crate::scanalloc::found_so_far();
                            found[0] = f1 - f0;
                            found[1] = f2 - f1;
                            found[2] = f3 - f2;
                            found
                        })
                        .0
                    });
                    match r {
                        Ok(found) => {
                            rep.count("dying_heap_blocks_scanned", 3);
                            if control {
                                // without zeroize the dying blocks must still hold the secrets
                                if found[2] == 1 && (found[0] == 1 || !must_hold) {
                                    rep.count("dying_block_positive_controls_found", 1);
                                } else if hv.iter().filter(|b| **b == 0).count() < 4 {
                                    rep.count("harness_panics", 1);
                                    rep.inconclusive.push(format!("dying-block scanner blind in case {}: {:?}", idx, found));
                                }
                            } else {
                                for (k, name) in ["Hasher", "OutputReader", "Hash"].iter().enumerate() {
                                    if found[k] != 0 {
                                        fail = Some((format!("zeroize/{}-residue-at-drop", name.to_lowercase()), format!("a boxed {} was zeroize()d and dropped; the heap block handed back to the allocator still held secret-derived bytes {} at offset {} of {} (the wipe did not survive optimisation)", name, hex(&crate::scanalloc::last_hit().1), crate::scanalloc::last_hit().0, [core::mem::size_of::<blake3::Hasher>(), core::mem::size_of::<blake3::OutputReader>(), 32][k])));
                                    }
                                }
                            }
                        }
                        Err(p) => fail = Some(("zeroize/panic".into(), p)),
                    }
                }
            }
        }
        plat::force(P::Native);
        for k in 0..6 {
            if dbg[0][k] != dbg[1][k] {
                fail = Some(("debug/interference".into(), format!("Debug output depends on secrets: {:?} vs {:?} for the same public history {:?}", dbg[0][k], dbg[1][k], lens)));
            }
        }
        rep.eval(format!("{}/{:?}/{}/{}", which, lens, seek % 64, p.name()));
        rep.seen("debug_shapes", dbg[0][0].split('{').next().unwrap_or("").trim().to_string());
        if idx % 1201 == 0 {
            rep.sample(Json::obj(vec![("public_history", Json::s(format!("{:?}", lens))), ("debug_hasher", Json::s(dbg[0][0].clone())), ("debug_reader", Json::s(dbg[0][2].clone())), ("debug_chunkstate", Json::s(dbg[0][4].clone()))]));
        }
        if let Some((c, d)) = fail {
            rep.violation(format!("C17/{}", c), d, args.replay_args(idx, p));
        }
    })
}

pub const RULE: &str = "one evaluation = one public history (update lengths, seek, read length, mode class, platform) executed with two independent secret assignments: the six Debug strings (Hasher, OutputReader, guts::ChunkState; {:?} and {:#?}) must be identical and free of renderings of secret words; then zeroize() on Hasher/OutputReader/Hash, a scan of the heap block of a boxed, zeroized and dropped copy as the allocator receives it, and a scan of every byte of the object for any 8-byte window of a secret-derived value (key, running chunk CVs, buffered input, all aligned subtree CVs, parent blocks, root output); distinct = distinct public histories";
