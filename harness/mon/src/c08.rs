//! C08: multithreaded hashing is deterministic under every schedule and race-free.
//! Twin execution: the same history on a hasher driven by `update` (serial) and on one driven by
//! a parallel entry point (real rayon pools; hook H2's ScriptedJoin with per-split orders
//! left-first / right-first / two real threads and injected delays). Afterwards all
//! observations must agree with each other and with specmodel. The event log of the scripted
//! scheduler yields the schedule signature (order and observed overlap per tree node).
use crate::api;
use crate::plat::{self, P};
use crate::run::{self, Args};
use blake3::verif_join::{Callbacks, Decision};
use monlib::{gen, guarded, hex, Fnv, Json, Report, Rng};
use specmodel::Stream;
use std::collections::HashMap;
use std::sync::atomic::{AtomicU64, AtomicUsize, Ordering};
use std::sync::Mutex;

// ---------------------------------------------------------------------------------------------
// scripted scheduler (hook H2 callbacks)
// ---------------------------------------------------------------------------------------------
#[derive(Clone)]
enum Script {
    All(u8),
    AlternateByDepth,
    Random(u64, u32), // seed, max delay us
    Table(HashMap<(u64, u64), u8>),
}

struct Session {
    script: Script,
    events: Vec<(u64, u64, u8, u8, u64)>, // counter, len, half, phase, stamp
}

static SESSIONS: Mutex<Option<HashMap<usize, Session>>> = Mutex::new(None);
static NEXT_SESSION: AtomicUsize = AtomicUsize::new(1);
static CLOCK: AtomicU64 = AtomicU64::new(1);

fn mix(mut x: u64) -> u64 {
    x ^= x >> 33;
    x = x.wrapping_mul(0xff51afd7ed558ccd);
    x ^= x >> 33;
    x = x.wrapping_mul(0xc4ceb9fe1a85ec53);
    x ^ (x >> 33)
}

fn decide(session: usize, counter: u64, len: u64) -> Decision {
    let g = SESSIONS.lock().unwrap();
    let s = g.as_ref().and_then(|m| m.get(&session));
    let none = Decision { order: 0, delay_left_us: 0, delay_right_us: 0 };
    match s.map(|s| &s.script) {
        None => none,
        Some(Script::All(o)) => Decision { order: *o, ..none },
        Some(Script::AlternateByDepth) => {
            let depth = 64 - (len / 1024).max(1).leading_zeros() as u64;
            Decision { order: (depth % 3) as u8, ..none }
        }
        Some(Script::Random(seed, maxd)) => {
            let r = mix(*seed ^ mix(counter.wrapping_mul(0x9E3779B97F4A7C15).wrapping_add(len)));
            let d = |x: u64| if *maxd > 0 && x % 8 == 0 { ((x >> 8) % (*maxd as u64)) as u32 } else { 0 };
            Decision { order: (r % 3) as u8, delay_left_us: d(r >> 16), delay_right_us: d(r >> 40) }
        }
        Some(Script::Table(t)) => Decision { order: *t.get(&(counter, len)).unwrap_or(&0), ..none },
    }
}

fn event(session: usize, counter: u64, len: u64, half: u8, phase: u8) {
    let stamp = CLOCK.fetch_add(1, Ordering::SeqCst);
    let mut g = SESSIONS.lock().unwrap();
    if let Some(s) = g.as_mut().and_then(|m| m.get_mut(&session)) {
        s.events.push((counter, len, half, phase, stamp));
    }
}

fn open_session(script: Script) -> usize {
    let id = NEXT_SESSION.fetch_add(1, Ordering::SeqCst);
    let mut g = SESSIONS.lock().unwrap();
    g.get_or_insert_with(HashMap::new).insert(id, Session { script, events: Vec::new() });
    id
}

/// (signature digest, splits, splits whose halves truly overlapped, right-before-left starts)
fn close_session(id: usize) -> (u64, u64, u64, u64) {
    let s = SESSIONS.lock().unwrap().as_mut().and_then(|m| m.remove(&id));
    let Some(s) = s else { return (0, 0, 0, 0) };
    let mut per: HashMap<(u64, u64), [u64; 4]> = HashMap::new(); // l_begin, l_end, r_begin, r_end
    for (c, l, half, phase, stamp) in s.events {
        per.entry((c, l)).or_insert([0; 4])[(half * 2 + phase) as usize] = stamp;
    }
    let mut keys: Vec<_> = per.keys().cloned().collect();
    keys.sort();
    let mut f = Fnv::new();
    let (mut overlaps, mut right_first) = (0, 0);
    for k in &keys {
        let e = per[k];
        let rf = e[2] < e[0];
        let ov = e[0] < e[3] && e[2] < e[1];
        if rf {
            right_first += 1;
        }
        if ov {
            overlaps += 1;
        }
        f.add_u64(k.0);
        f.add_u64(k.1);
        f.add(&[rf as u8, ov as u8]);
    }
    (f.0, keys.len() as u64, overlaps, right_first)
}

/// Internal nodes of the split tree of one `update` of `len` bytes at chunk counter 0 with the
/// given SIMD degree (mirrors the documented tree shape, not the implementation's code).
fn split_nodes(len: usize, degree: usize) -> Vec<(u64, u64)> {
    fn rec(counter: u64, len: usize, degree: usize, out: &mut Vec<(u64, u64)>) {
        if len <= degree * 1024 {
            return;
        }
        out.push((counter, len as u64));
        let l = specmodel::left_len(len as u128) as usize;
        rec(counter, l, degree, out);
        rec(counter + (l / 1024) as u64, len - l, degree, out);
    }
    // update() feeds power-of-two subtrees in decreasing size; the last partial chunk stays buffered
    let mut out = Vec::new();
    let mut off = 0usize;
    let mut rem = len;
    while rem > 1024 {
        let mut sub = 1usize << (usize::BITS - 1 - rem.leading_zeros());
        if sub == rem && false {
            sub /= 2;
        }
        // largest power of two <= rem, shrunk until it divides the count so far
        while (sub - 1) & off != 0 {
            sub /= 2;
        }
        if sub > 1024 {
            rec((off / 1024) as u64, sub, degree, &mut out);
        }
        off += sub;
        rem -= sub;
    }
    out
}

fn noise_threads(n: usize, stop: std::sync::Arc<std::sync::atomic::AtomicBool>) -> Vec<std::thread::JoinHandle<()>> {
    (0..n)
        .map(|i| {
            let stop = stop.clone();
            std::thread::spawn(move || {
                let mut x = i as u64 + 1;
                while !stop.load(Ordering::Relaxed) {
                    for _ in 0..20_000 {
                        x = mix(x);
                    }
                    if x == 42 {
                        std::thread::yield_now();
                    }
                }
            })
        })
        .collect()
}

fn observe(h: &blake3::Hasher, suffix: &[u8]) -> Result<(u64, [u8; 32], Vec<u8>, [u8; 32]), String> {
    guarded(|| {
        let mut x = vec![0u8; 200];
        let mut rd = h.finalize_xof();
        rd.set_position(40);
        rd.fill(&mut x);
        let mut c = h.clone();
        c.update(suffix);
        (h.count(), *h.finalize().as_bytes(), x, *c.finalize().as_bytes())
    })
}

pub fn run(args: &Args) -> Report {
    blake3::verif_join::install(Some(Callbacks { decide, event }));
    let small = args.get("miri-small") == Some("1");
    let plats = if small { args.platforms_or(&[P::Portable, P::Sse41]) } else { args.platforms_or(&[P::Portable, P::Native, P::Sse41]) };
    let n_scripted = args.n(2000, 20_000);
    let n_rayon = args.n(800, 6_000);
    // exhaustive 3^k order assignments for small trees on the portable platform (a split at every
    // level above one chunk): 2 chunks -> 1 internal node, 4 -> 3, 6 -> 4, 8 -> 7
    let chunk_counts: &[usize] = if small { &[2, 4] } else if args.thorough { &[2, 4, 6, 8] } else { &[2, 4, 6] };
    let mut exhaustive: Vec<(usize, Vec<u8>)> = Vec::new(); // (chunks, assignment)
    if args.only.is_none() || args.only.unwrap() < 5000 {
        for &chunks in chunk_counts {
            let k = split_nodes(chunks * 1024, 1).len();
            for a in 0..3usize.pow(k as u32) {
                let mut v = Vec::with_capacity(k);
                let mut x = a;
                for _ in 0..k {
                    v.push((x % 3) as u8);
                    x /= 3;
                }
                exhaustive.push((chunks, v));
            }
        }
    }
    let n_ex = exhaustive.len() as u64;
    let stop = std::sync::Arc::new(std::sync::atomic::AtomicBool::new(false));
    let noise = if small || args.get("noise") == Some("0") { vec![] } else { noise_threads(4, stop.clone()) };
    let exhaustive = &exhaustive;
    let rep = run::run_cases(args, 8, n_ex + n_scripted + n_rayon, |idx, rng, rep| {
        let mode = gen::mode(rng);
        let p = if idx < n_ex { P::Portable } else { plats[(idx % plats.len() as u64) as usize] };
        plat::force(p);
        let degree = p.platform().map(|x| x.simd_degree()).unwrap_or_else(|| blake3::platform::Platform::detect().simd_degree());
        // history: optional serial prefix, the parallel update, then observations + suffix
        let prefix_len = if idx < n_ex { 0 } else { [0usize, 0, 1, 1023, 1024, 1025, 3072, 5 * 1024 + 1][rng.usize_below(8)] };
        let max_par: usize = if small { 6 * 1024 } else if rng.chance(1, 40) { 8 << 20 } else { 200 * 1024 };
        let par_len = if idx < n_ex {
            exhaustive[idx as usize].0 * 1024 + if rng.chance(1, 2) { 0 } else { 1 + rng.usize_below(1024) }
        } else {
            match rng.below(4) {
                0 => (1024usize << rng.usize_below(9)).min(max_par),
                1 => 1024 * (2 + rng.usize_below(70)) + rng.usize_below(3) - 1,
                _ => 2048 + rng.usize_below(max_par - 2048),
            }
            .min(max_par)
        };
        let prefix = rng.bytes(prefix_len);
        let data = gen::content(rng, par_len);
        let suffix_len = gen::hostile_len(rng, 3000);
        let suffix = rng.bytes(suffix_len);
        let mut serial = api::hasher_for(&mode);
        serial.update(&prefix);
        serial.update(&data);
        let mut m = Stream::new(&mode);
        m.push(&prefix);
        m.push(&data);
        let want = m.root().root_hash();
        let mut par = api::hasher_for(&mode);
        par.update(&prefix);
        let desc;
        let mut sig = (0u64, 0u64, 0u64, 0u64);
        let r: Result<(), String> = if idx < n_ex + n_scripted {
            // ---- scripted join ----
            let script = if idx < n_ex {
                let nodes = split_nodes(par_len, 1);
                let assign = &exhaustive[idx as usize].1;
                let mut t = HashMap::new();
                for (i, n) in nodes.iter().enumerate() {
                    t.insert(*n, assign[i % assign.len()]);
                }
                rep.count("exhaustive_schedules", 1);
                if nodes.len() != assign.len() {
                    rep.count("exhaustive_node_count_mismatch", 1);
                }
                Script::Table(t)
            } else {
                match rng.below(6) {
                    0 => Script::All(0),
                    1 => Script::All(1),
                    2 => Script::All(2),
                    3 => Script::AlternateByDepth,
                    4 => Script::Random(rng.u64(), 0),
                    _ => Script::Random(rng.u64(), if small { 0 } else { 200 }),
                }
            };
            desc = format!("scripted({}) prefix={} par_len={} platform={}", match &script { Script::All(o) => format!("all={}", o), Script::AlternateByDepth => "alternate".into(), Script::Random(s, d) => format!("random seed={} maxdelay={}", s, d), Script::Table(t) => format!("table of {} nodes {:?}", t.len(), exhaustive[idx as usize].1) }, prefix_len, par_len, p.name());
            let id = open_session(script);
            let r = guarded(|| {
                par.verif_update_scripted(&data, id);
            });
            sig = close_session(id);
            r
        } else {
            // ---- real rayon pools ----
            #[cfg(any(feature = "full", feature = "miri_rayon"))]
            {
                let pool_size = [1usize, 2, 3, 4, 8, 16, 0][rng.usize_below(7)];
                let pool_size = if small { pool_size.min(3) } else { pool_size };
                #[cfg(feature = "full")]
                let use_mmap = !small && rng.chance(1, 4);
                #[cfg(not(feature = "full"))]
                let use_mmap = false;
                desc = format!("rayon(pool={}{}) prefix={} par_len={} platform={}", if pool_size == 0 { "global".to_string() } else { pool_size.to_string() }, if use_mmap { ",mmap" } else { "" }, prefix_len, par_len, p.name());
                rep.seen("pool_sizes", if pool_size == 0 { "global".to_string() } else { pool_size.to_string() });
                let path = std::env::temp_dir().join(format!("verif-c08-{}-{}", std::process::id(), idx));
                if use_mmap {
                    std::fs::write(&path, &data).expect("scratch");
                }
                let par_ref = &mut par;
                let mut work = move || -> Result<(), String> {
                    #[cfg(feature = "full")]
                    if use_mmap {
                        return par_ref.update_mmap_rayon(&path).map(|_| ()).map_err(|e| e.to_string());
                    }
                    par_ref.update_rayon(&data);
                    Ok(())
                };
                let r = guarded(|| {
                    if pool_size == 0 {
                        work()
                    } else {
                        let pool = rayon_core::ThreadPoolBuilder::new().num_threads(pool_size).build().map_err(|e| e.to_string())?;
                        pool.install(work)
                    }
                });
                let _ = std::fs::remove_file(std::env::temp_dir().join(format!("verif-c08-{}-{}", std::process::id(), idx)));
                match r {
                    Ok(Ok(())) => Ok(()),
                    Ok(Err(e)) => Err(e),
                    Err(p) => Err(format!("panicked: {}", p)),
                }
            }
            #[cfg(not(any(feature = "full", feature = "miri_rayon")))]
            {
                desc = "rayon unavailable in this build".to_string();
                par.update(&data);
                Ok(())
            }
        };
        plat::force(P::Native);
        let _ = degree;
        rep.eval(format!("{}/{}/{}/{:x}", if idx < n_ex { "ex" } else if idx < n_ex + n_scripted { "scr" } else { "ray" }, par_len, p.name(), sig.0));
        rep.count("splits_scheduled", sig.1);
        rep.count("splits_with_true_overlap", sig.2);
        rep.count("splits_right_half_started_first", sig.3);
        if sig.1 > 0 {
            rep.seen("schedule_signatures", format!("{:x}", sig.0));
        }
        let viol = |rep: &mut Report, class: &str, d: String| rep.violation(format!("C08/rust/{}", class), format!("{} | {}", d, desc), args.replay_args(idx, p));
        if let Err(e) = r {
            return viol(rep, "panic-or-error", e);
        }
        match (observe(&serial, &suffix), observe(&par, &suffix)) {
            (Ok(a), Ok(b)) => {
                if b.1 != want {
                    viol(rep, "spec-mismatch", format!("parallel result {} differs from the specification {}", hex(&b.1), hex(&want)));
                } else if a != b {
                    viol(rep, "twin-mismatch", format!("serial and parallel hashers differ: count {} vs {}, hash {} vs {}, suffix hash {} vs {}", a.0, b.0, hex(&a.1), hex(&b.1), hex(&a.3), hex(&b.3)));
                }
            }
            (Err(e), _) | (_, Err(e)) => viol(rep, "observe-panic", e),
        }
        if idx % 977 == 0 {
            rep.sample(Json::obj(vec![("case", Json::Int(idx as i128)), ("desc", Json::s(desc.clone())), ("splits", Json::Int(sig.1 as i128)), ("true_overlaps", Json::Int(sig.2 as i128)), ("signature", Json::s(format!("{:x}", sig.0)))]));
        }
    });
    stop.store(true, Ordering::Relaxed);
    for h in noise {
        let _ = h.join();
    }
    rep
}

pub const RULE: &str = "one evaluation = one twin history (serial prefix, then the same bytes through update on one hasher and through a parallel entry point on its twin, then count/finalize/XOF window/suffix compared with each other and with specmodel); parallel entry points: hook H2 ScriptedJoin (all-left, all-right, all-threads, alternating by depth, seeded random with injected 0-200us delays, exhaustive 3^k order assignments for trees with k internal nodes on the portable platform) and real rayon pools of size 1,2,3,4,8,16 and the global pool (update_rayon, update_mmap_rayon) with CPU-burner noise threads; distinct = distinct (kind, length, platform, observed schedule signature)";
