//! Size-class monitor: inputs beyond 2^31 and 2^32 bytes.
//!
//! Every other monitor keeps its inputs small enough to run tens of thousands of cases; none of
//! them reaches the lengths at which a 32-bit intermediate (an `i32` literal, a `u32` cast, an
//! `unsigned` mask) starts to matter. This monitor runs a handful of cases just above 2^31 and 2^32
//! bytes, one at a time (memory: one input buffer of up to ~4 GiB), against the same recursive
//! model, whose two top-level subtrees are evaluated on scoped threads (the definition is unchanged,
//! only the evaluation order of independent subtrees is).
//!
//! `--what oneshot` (C01), `hasher` (C02), `rayon` (C08), `file` (C11: sparse all-zero file via
//! update_mmap / update_mmap_rayon / update_reader).
use crate::api;
use crate::plat::{self, P};
use crate::run::Args;
use monlib::{gen, guarded, hex, Json, Report, Rng};
use specmodel::{Mode, Node};

// usize arithmetic that also compiles for 32-bit targets (where this monitor has no cases to run)
const TWO31: usize = (1u64 << 31) as usize;
const TWO32: usize = (1u64 << 32) as usize;

fn subtree_par(key: &[u32; 8], bytes: &[u8], first_chunk: u64, flags: u32, depth: u32) -> Node {
    if depth == 0 || bytes.len() <= (1 << 20) {
        return specmodel::subtree(key, bytes, first_chunk, flags);
    }
    let l = specmodel::left_len(bytes.len() as u128) as usize;
    let (left, right) = bytes.split_at(l);
    let (lcv, rcv) = std::thread::scope(|s| {
        let h = s.spawn(move || subtree_par(key, left, first_chunk, flags, depth - 1).cv());
        let r = subtree_par(key, right, first_chunk.wrapping_add((l / 1024) as u64), flags, depth - 1).cv();
        (h.join().expect("model thread"), r)
    });
    specmodel::parent_node(key, &lcv, &rcv, flags)
}

pub fn model_root(mode: &Mode, bytes: &[u8]) -> Node {
    let (k, f) = mode.key_flags();
    subtree_par(&k, bytes, 0, f, 5)
}

/// Fast position-dependent fill (every 8-byte word differs from its neighbours and from the word
/// at the same offset in any other MiB), done on 16 threads.
fn fill_pattern(buf: &mut [u8], seed: u64) {
    let slab = 64 << 20;
    std::thread::scope(|s| {
        for (si, part) in buf.chunks_mut(slab).enumerate() {
            s.spawn(move || {
                let base = (si * slab / 8) as u64;
                let mut it = part.chunks_exact_mut(8);
                let mut i = base;
                for w in &mut it {
                    let mut x = i.wrapping_mul(0x9E37_79B9_7F4A_7C15).wrapping_add(seed);
                    x ^= x >> 29;
                    w.copy_from_slice(&x.to_le_bytes());
                    i += 1;
                }
                for (k, b) in it.into_remainder().iter_mut().enumerate() {
                    *b = (seed as u8).wrapping_add(k as u8).wrapping_mul(31);
                }
            });
        }
    });
}

fn lengths(args: &Args, rng: &mut Rng) -> Vec<usize> {
    if usize::BITS < 64 {
        return vec![];
    }
    let two31 = TWO31;
    let two32 = two31 * 2;
    if let Some(l) = args.get("len") {
        return vec![l.parse().expect("len")];
    }
    if args.thorough {
        vec![two31 + 1, two31 + 1024 * (1 + rng.usize_below(4000)) + rng.usize_below(1025), two32 + 1, two32 + 1024 * (1 + rng.usize_below(4000)) + rng.usize_below(1025), two32 + two31 + 64 * (1 + rng.usize_below(64))]
    } else {
        vec![two31 + 1024 * (1 + rng.usize_below(64)) + rng.usize_below(1025)]
    }
}

#[cfg(feature = "full")]
fn zero_file(len: usize) -> std::io::Result<(std::fs::File, std::path::PathBuf)> {
    let dir = std::env::var("VERIF_TMP").unwrap_or_else(|_| "/tmp".into());
    let p = std::path::PathBuf::from(format!("{}/verif-huge-{}-{}", dir, std::process::id(), len));
    let f = std::fs::OpenOptions::new().read(true).write(true).create(true).truncate(true).open(&p)?;
    f.set_len(len as u64)?; // sparse: no blocks are allocated
    Ok((f, p))
}

pub fn run(args: &Args) -> Report {
    let mut rep = Report::new();
    let what = args.get("what").unwrap_or("oneshot").to_string();
    let mut rng = Rng::new(args.seed, 0x4855_4745);
    let lens = lengths(args, &mut rng);
    // pools wider than any per-worker table a parallel implementation might keep (C08): 65, 96 and
    // 200 worker threads over inputs of 16-48 MiB
    #[cfg(feature = "full")]
    if what == "rayon" && args.only.is_none() {
        for &threads in &[65usize, 96, 200, 33] {
            let n = (16usize << 20) * (1 + rng.usize_below(3)) + rng.usize_below(70_000);
            let mut data = vec![0u8; n];
            fill_pattern(&mut data, rng.u64());
            let mode = Mode::Keyed(gen::key(&mut rng));
            let want = model_root(&mode, &data).root_hash();
            let got = guarded(|| -> Result<[u8; 32], String> {
                let pool = rayon_core::ThreadPoolBuilder::new().num_threads(threads).build().map_err(|e| e.to_string())?;
                Ok(pool.install(|| *api::hasher_for(&mode).update_rayon(&data).finalize().as_bytes()))
            });
            rep.eval(format!("C08/wide-pool/{}/{}", threads, n));
            rep.seen("wide_pool_sizes", threads.to_string());
            match got {
                Ok(Ok(g)) if g == want => {}
                Ok(Err(e)) => rep.inconclusive.push(format!("cannot build a {}-thread pool: {}", threads, e)),
                Ok(Ok(g)) => rep.violation("C08/huge/wide-pool/mismatch", format!("update_rayon of {} bytes inside a {}-thread pool: got {} want {}", n, threads, hex(&g), hex(&want)), vec!["huge".into(), "--what".into(), "rayon".into()]),
                Err(p) => rep.violation("C08/huge/wide-pool/panic", format!("update_rayon of {} bytes inside a {}-thread pool panicked: {}", n, threads, p), vec!["huge".into(), "--what".into(), "rayon".into()]),
            }
        }
    }
    // the reference implementation fed more than 2^32 bytes in one call (C15)
    #[cfg(feature = "full")]
    if what == "refimpl" {
        let n = TWO32 + 1024 * (1 + rng.usize_below(64)) + rng.usize_below(1025);
        let mut data = vec![0u8; n];
        fill_pattern(&mut data, rng.u64());
        let want = model_root(&Mode::Hash, &data).root_hash();
        let got = guarded(|| {
            let mut h = reference_impl::Hasher::new();
            h.update(&data);
            let mut o = [0u8; 32];
            h.finalize(&mut o);
            o
        });
        rep.eval(format!("C15/refimpl/one-update/{}", n));
        rep.count("huge_input_bytes", n as u64);
        match got {
            Ok(g) if g == want => {}
            Ok(g) => rep.violation("C15/huge/reference_impl/mismatch", format!("reference_impl::Hasher fed {} bytes in one update: got {} want {}", n, hex(&g), hex(&want)), vec!["huge".into(), "--what".into(), "refimpl".into()]),
            Err(p) => rep.violation("C15/huge/reference_impl/panic", format!("reference_impl::Hasher fed {} bytes in one update panicked: {}", n, p), vec!["huge".into(), "--what".into(), "refimpl".into()]),
        }
        return rep;
    }
    for (ci, &n) in lens.iter().enumerate() {
        if let Some(o) = args.only {
            if o != ci as u64 {
                continue;
            }
        }
        monlib::crash::set_case(ci as u64, 0, 0);
        let zeros = what == "file";
        let mut data = vec![0u8; n];
        let dseed = rng.u64();
        if !zeros {
            fill_pattern(&mut data, dseed);
        }
        let modes = [Mode::Hash, Mode::Keyed(gen::key(&mut rng)), Mode::DeriveKey(gen::context(&mut rng).into_bytes())];
        let replay = {
            let mut v = args.replay_args(ci as u64, P::Native);
            v.push("--len".into());
            v.push(n.to_string());
            v
        };
        rep.count("huge_input_bytes", n as u64);
        rep.seen("size_class", if n > TWO32 { ">2^32" } else { ">2^31" });
        for (mi, mode) in modes.iter().enumerate() {
            if zeros && mi == 2 {
                continue;
            }
            let root = model_root(mode, &data);
            let want = root.root_hash();
            let mname = gen::mode_name(mode);
            let mut check = |rep: &mut Report, prop: &str, entry: &str, got: Result<[u8; 32], String>| {
                rep.eval(format!("{}/{}/{}/{}", prop, entry, mname, n));
                match got {
                    Ok(g) if g == want => {}
                    Ok(g) => rep.violation(format!("{}/huge/{}/mismatch", prop, entry), format!("{} over {} bytes (mode {}): got {} want {}", entry, n, api::mode_desc(mode), hex(&g), hex(&want)), replay.clone()),
                    Err(p) => rep.violation(format!("{}/huge/{}/panic", prop, entry), format!("{} over {} bytes (mode {}) panicked: {}", entry, n, api::mode_desc(mode), p), replay.clone()),
                }
            };
            match what.as_str() {
                "oneshot" => {
                    check(&mut rep, "C01", "oneshot", guarded(|| api::oneshot(mode, &data)));
                    // one extra forced platform per mode
                    let p = [P::Avx2, P::Sse41, P::Portable][mi];
                    if p.available() && (p != P::Portable || !args.thorough) {
                        plat::force(p);
                        let got = guarded(|| api::oneshot(mode, &data));
                        plat::force(P::Native);
                        check(&mut rep, "C01", &format!("oneshot-{}", p.name()), got);
                    }
                }
                "hasher" => {
                    check(&mut rep, "C02", "update-once", guarded(|| *api::hasher_for(mode).update(&data).finalize().as_bytes()));
                    let cut = if n > TWO32 { TWO32.wrapping_sub(1) } else { TWO31 - 1 };
                    check(&mut rep, "C02", "update-split-below-power", guarded(|| *api::hasher_for(mode).update(&data[..cut]).update(&data[cut..]).finalize().as_bytes()));
                    let cut2 = 64 * (1 + rng.usize_below(1000)) + rng.usize_below(64);
                    check(&mut rep, "C02", "update-small-then-rest", guarded(|| *api::hasher_for(mode).update(&data[..cut2]).update(&data[cut2..]).finalize().as_bytes()));
                    // count() and an XOF window
                    let seek = gen::hostile_seek(&mut rng).min(u64::MAX - 300);
                    let r = guarded(|| {
                        let mut h = api::hasher_for(mode);
                        h.update(&data);
                        let mut out = [0u8; 200];
                        let mut rd = h.finalize_xof();
                        rd.set_position(seek);
                        rd.fill(&mut out);
                        (h.count(), out)
                    });
                    rep.eval(format!("C02/xof-window/{}/{}", mname, n));
                    match r {
                        Ok((c, out)) => {
                            if c != n as u64 {
                                rep.violation("C02/huge/count", format!("count() = {} after one update of {} bytes", c, n), replay.clone());
                            }
                            if out[..] != root.root_bytes(seek, 200)[..] {
                                rep.violation("C02/huge/xof/mismatch", format!("S[{}..+200] of a {}-byte input (mode {}) differs from the model", seek, n, api::mode_desc(mode)), replay.clone());
                            }
                        }
                        Err(p) => rep.violation("C02/huge/xof/panic", format!("{} bytes: {}", n, p), replay.clone()),
                    }
                }
                #[cfg(feature = "full")]
                "rayon" => {
                    check(&mut rep, "C08", "update_rayon", guarded(|| *api::hasher_for(mode).update_rayon(&data).finalize().as_bytes()));
                    let cut = 1024 * (1 + rng.usize_below(5000)) + rng.usize_below(1024);
                    check(&mut rep, "C08", "update-then-update_rayon", guarded(|| *api::hasher_for(mode).update(&data[..cut]).update_rayon(&data[cut..]).finalize().as_bytes()));
                }
                #[cfg(feature = "full")]
                "file" => {
                    let (f, path) = match zero_file(n) {
                        Ok(x) => x,
                        Err(e) => {
                            rep.inconclusive.push(format!("cannot create a sparse {}-byte file: {}", n, e));
                            continue;
                        }
                    };
                    check(&mut rep, "C11", "update_mmap", guarded(|| *api::hasher_for(mode).update_mmap(&path).expect("update_mmap").finalize().as_bytes()));
                    check(&mut rep, "C11", "update_mmap_rayon", guarded(|| *api::hasher_for(mode).update_mmap_rayon(&path).expect("update_mmap_rayon").finalize().as_bytes()));
                    if mi == 0 {
                        check(&mut rep, "C11", "update_reader", guarded(|| *api::hasher_for(mode).update_reader(&f).expect("update_reader").finalize().as_bytes()));
                    }
                    drop(f);
                    let _ = std::fs::remove_file(&path);
                }
                other => {
                    eprintln!("huge: unknown --what {}", other);
                    std::process::exit(2);
                }
            }
            if mi == 0 {
                rep.sample(Json::obj(vec![("what", Json::s(what.clone())), ("len", Json::u(n)), ("model_hash", Json::s(hex(&want)))]));
            }
        }
    }
    if lens.is_empty() {
        rep.inconclusive.push("usize is narrower than 64 bits: no huge inputs possible".into());
    }
    rep
}

/// `mon huge-expect --kind update --len L --dseed S` / `--kind finalize --dseed S --at OFF`:
/// model values for the C driver's size-class probes (cdrv --big).
pub fn expect(args: &Args) {
    let dseed: u64 = args.get("dseed").expect("dseed").parse().expect("dseed");
    match args.get("kind").unwrap_or("update") {
        "update" => {
            let n: usize = args.get("len").expect("len").parse().expect("len");
            let mut data = vec![0u8; n];
            fill_pattern(&mut data, dseed);
            println!("HASH {}", hex(&model_root(&Mode::Hash, &data).root_hash()));
        }
        _ => {
            let at: u64 = args.get("at").expect("at").parse().expect("at");
            let mut data = vec![0u8; 3000];
            fill_pattern(&mut data, dseed);
            println!("TAIL {}", hex(&model_root(&Mode::Hash, &data).root_bytes(at, 64)));
        }
    }
}

pub const RULE: &str = "one evaluation = one API call over one input longer than 2^31 (thorough: also 2^32) bytes compared with the recursive model (independent subtrees evaluated on threads); cases run one at a time; distinct = distinct (entry point, mode, length)";
