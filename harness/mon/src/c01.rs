//! C01: one-shot hash / keyed_hash / derive_key == specification, never panics.
use crate::api;
use crate::plat::{self, P};
use crate::run::{self, Args};
use monlib::{gen, guarded, hex, Json, Report, Rng};
use specmodel::Mode;

pub fn lengths(args: &Args) -> Vec<usize> {
    let mut v: Vec<usize> = if args.thorough { (0..=8 * 1024 + 1).collect() } else { (0..=2049).collect() };
    let extra: &[usize] = if args.thorough { &[511, 512, 513, 1023, 1024, 1025, 4095, 4096, 4097] } else { &[] };
    v.extend(gen::lattice_lengths(extra));
    v.sort();
    v.dedup();
    v
}

pub fn run(args: &Args) -> Report {
    let lens = lengths(args);
    let n_lattice = lens.len() as u64;
    let n_random = args.n(64, 400);
    let max_random: usize = if args.thorough { 8 << 20 } else { 1 << 20 };
    let n_huge = if args.thorough { 6 } else { 0 };
    let total = n_lattice + n_random + n_huge;
    let plats = args.platforms_or(&[P::Native, P::Portable, P::Sse41, P::Avx2]);
    let rep = run::run_cases(args, 1, total, |idx, rng, rep| {
        let n = if idx < n_lattice {
            lens[idx as usize]
        } else if idx < n_lattice + n_random {
            rng.usize_below(max_random + 1)
        } else {
            (16 << 20) + rng.usize_below(48 << 20)
        };
        let data = gen::content(rng, n);
        let modes = [Mode::Hash, Mode::Keyed(gen::key(rng)), Mode::DeriveKey(gen::context(rng).into_bytes())];
        for mode in &modes {
            let want = specmodel::hash(mode, &data);
            for (pi, &p) in plats.iter().enumerate() {
                // first platform at full scale, the others at quarter scale
                if pi > 0 && args.only.is_none() && idx % 4 != (pi as u64 % 4) {
                    continue;
                }
                plat::force(p);
                let got = guarded(|| api::oneshot(mode, &data));
                plat::force(P::Native);
                rep.eval(format!("{}/{}/{}", gen::mode_name(mode), n, p.name()));
                rep.seen("platforms", format!("{}={}", p.name(), { plat::force(p); let d = plat::detected_name(); plat::force(P::Native); d }));
                match got {
                    Ok(g) if g == want => {}
                    Ok(g) => rep.violation(
                        format!("C01/oneshot/{}/mismatch", gen::mode_name(mode)),
                        format!("len={} mode={} platform={} got={} want={}", n, api::mode_desc(mode), p.name(), hex(&g), hex(&want)),
                        args.replay_args(idx, p),
                    ),
                    Err(msg) => rep.violation(
                        format!("C01/oneshot/{}/panic", gen::mode_name(mode)),
                        format!("len={} mode={} platform={} panic={}", n, api::mode_desc(mode), p.name(), msg),
                        args.replay_args(idx, p),
                    ),
                }
            }
        }
        // Purity under buffer reuse: the one-shot functions are handed the *same* buffers (same
        // address, same length) with different contents on consecutive calls of one thread. A
        // result must depend on the bytes, never on where they live.
        if idx % 8 == 0 {
            // every other time the consecutive contexts form a family: same length, same long common
            // prefix (64 bytes and more), only the tail differs
            let family = idx % 16 == 8;
            let clen = if family { *rng.pick(&[65usize, 66, 80, 128, 129, 300, 1024, 1030]) } else { 1 + rng.usize_below(60) };
            let mut ctx_buf = String::with_capacity(clen);
            let mut key_buf = [0u8; 32];
            let mut in_buf = vec![0u8; n.min(3000)];
            for round in 0..3 {
                if family && round > 0 {
                    let keep = clen - 1 - rng.usize_below((clen - 64).min(3));
                    ctx_buf.truncate(keep);
                } else {
                    ctx_buf.clear();
                }
                while ctx_buf.len() < clen {
                    ctx_buf.push((b'a' + rng.below(26) as u8) as char);
                }
                rng.fill(&mut key_buf);
                rng.fill(&mut in_buf);
                let checks: [(Mode, &str); 3] = [(Mode::Hash, "hash"), (Mode::Keyed(key_buf), "keyed"), (Mode::DeriveKey(ctx_buf.clone().into_bytes()), "derive")];
                for (m, name) in checks.iter() {
                    let want = specmodel::hash(m, &in_buf);
                    let got = guarded(|| match m {
                        Mode::Hash => *blake3::hash(&in_buf).as_bytes(),
                        Mode::Keyed(_) => *blake3::keyed_hash(&key_buf, &in_buf).as_bytes(),
                        Mode::DeriveKey(_) => blake3::derive_key(&ctx_buf, &in_buf),
                    });
                    let got2 = guarded(|| match m {
                        Mode::DeriveKey(_) => *blake3::Hasher::new_derive_key(&ctx_buf).update(&in_buf).finalize().as_bytes(),
                        _ => want,
                    });
                    rep.eval(format!("reuse/{}/{}/{}", name, n.min(3000), clen));
                    rep.count("buffer_reuse_calls", 1);
                    if got != Ok(want) || got2 != Ok(want) {
                        rep.violation(
                            format!("C01/oneshot/{}/depends-on-call-history", name),
                            format!("round {} of consecutive calls through the same buffers (context {:?}, {} input bytes): got {:?} / {:?} want {}", round, ctx_buf, in_buf.len(), got.as_ref().map(|g| hex(g)), got2.as_ref().map(|g| hex(g)), hex(&want)),
                            args.replay_args(idx, P::Native),
                        );
                    }
                }
            }
        }
        if idx % 997 == 3 || n > (1 << 20) {
            rep.sample(Json::obj(vec![("len", Json::u(n)), ("modes", Json::s("hash,keyed,derive")), ("hash", Json::s(hex(&specmodel::hash(&Mode::Hash, &data))))]));
        }
        rep.count("bytes_hashed", 3 * n as u64);
    });
    rep
}

pub const RULE: &str = "one evaluation = one one-shot call compared with specmodel; lengths: exhaustive prefix range + lattice 1024k+{-65..65} + seeded random; distinct = distinct (mode, length, forced platform) triples";

#[allow(dead_code)]
fn _unused(_: &mut Rng) {}
