//! Common runner: argument parsing, sharding of case indices over worker threads, report output.
use crate::plat::P;
use monlib::{Report, Rng};

#[derive(Clone, Debug)]
pub struct Args {
    pub monitor: String,
    pub seed: u64,
    pub thorough: bool,
    pub out: Option<String>,
    pub only: Option<u64>,
    pub platforms: Vec<P>,
    pub threads: usize,
    /// multiplies the number of cases (thorough tiers, background sweeps)
    pub scale: f64,
    pub extra: Vec<(String, String)>,
    pub raw: Vec<String>,
}

impl Args {
    pub fn parse(argv: &[String]) -> Args {
        let mut a = Args {
            monitor: argv.get(0).cloned().unwrap_or_default(),
            seed: 1,
            thorough: false,
            out: None,
            only: None,
            platforms: vec![],
            threads: default_threads(),
            scale: 1.0,
            extra: vec![],
            raw: argv.to_vec(),
        };
        let mut i = 1;
        while i < argv.len() {
            let k = argv[i].as_str();
            let v = argv.get(i + 1).cloned().unwrap_or_default();
            match k {
                "--seed" => a.seed = v.parse().expect("seed"),
                "--tier" => a.thorough = v == "thorough",
                "--out" => a.out = Some(v),
                "--only" => a.only = Some(v.parse().expect("only")),
                "--platforms" => a.platforms = v.split(',').filter(|s| !s.is_empty()).map(|s| P::parse(s).expect("platform")).collect(),
                "--threads" => a.threads = v.parse().expect("threads"),
                "--scale" => a.scale = v.parse().expect("scale"),
                _ => {
                    if let Some(name) = k.strip_prefix("--") {
                        a.extra.push((name.to_string(), v));
                    }
                }
            }
            i += 2;
        }
        a
    }
    pub fn get(&self, name: &str) -> Option<&str> {
        self.extra.iter().find(|(k, _)| k == name).map(|(_, v)| v.as_str())
    }
    pub fn n(&self, quick: u64, thorough: u64) -> u64 {
        let base = if self.thorough { thorough } else { quick };
        ((base as f64) * self.scale).max(1.0) as u64
    }
    /// Arguments that replay case `index` of this monitor run.
    pub fn replay_args(&self, index: u64, platform: P) -> Vec<String> {
        let mut v = vec![
            self.monitor.clone(),
            "--seed".into(),
            self.seed.to_string(),
            "--tier".into(),
            if self.thorough { "thorough".into() } else { "quick".into() },
            "--scale".into(),
            format!("{}", self.scale),
            "--only".into(),
            index.to_string(),
            "--platforms".into(),
            platform.name().into(),
        ];
        for (k, val) in &self.extra {
            v.push(format!("--{}", k));
            v.push(val.clone());
        }
        v
    }
    /// Platforms to run: the explicit list, else `default`, filtered by availability.
    pub fn platforms_or(&self, default: &[P]) -> Vec<P> {
        let list: Vec<P> = if self.platforms.is_empty() { default.to_vec() } else { self.platforms.clone() };
        list.into_iter().filter(|p| p.available()).collect()
    }
}

fn default_threads() -> usize {
    #[cfg(miri)]
    {
        1
    }
    #[cfg(not(miri))]
    {
        std::thread::available_parallelism().map(|n| n.get()).unwrap_or(4).min(16)
    }
}

/// Run cases `0..total` (or only `args.only`) sharded over threads. `case` gets the case index,
/// a PRNG derived from (seed, stream, index) and the thread's report. A panic escaping `case`
/// itself is a harness error and is recorded as such (never as a violation).
pub fn run_cases<F>(args: &Args, stream: u64, total: u64, case: F) -> Report
where
    F: Fn(u64, &mut Rng, &mut Report) + Sync,
{
    let from: u64 = args.get("from").map(|v| v.parse().expect("from")).unwrap_or(0);
    let indices: Vec<u64> = match args.only {
        Some(i) => vec![i],
        None => {
            let shard: u64 = args.get("shard").map(|v| v.parse().expect("shard")).unwrap_or(0);
            let shards: u64 = args.get("shards").map(|v| v.parse().expect("shards")).unwrap_or(1);
            (from..total).filter(|i| i % shards == shard).collect()
        }
    };
    let threads = args.threads.max(1).min(indices.len().max(1));
    let mut merged = Report::new();
    let case = &case;
    let indices = &indices;
    let reports: Vec<Report> = if threads == 1 {
        vec![worker(args, stream, indices, 0, 1, case)]
    } else {
        std::thread::scope(|s| {
            let hs: Vec<_> = (0..threads).map(|t| s.spawn(move || worker(args, stream, indices, t, threads, case))).collect();
            hs.into_iter().map(|h| h.join().expect("worker thread")).collect()
        })
    };
    for r in reports {
        merged.merge(r);
    }
    merged
}

fn worker<F>(args: &Args, stream: u64, indices: &[u64], t: usize, threads: usize, case: &F) -> Report
where
    F: Fn(u64, &mut Rng, &mut Report) + Sync,
{
    let mut rep = Report::new();
    let mut k = t;
    while k < indices.len() {
        let idx = indices[k];
        let mut rng = Rng::new(args.seed, stream.wrapping_mul(0x1_0000_0001).wrapping_add(idx));
        let r = monlib::guarded(|| case(idx, &mut rng, &mut rep));
        if let Err(msg) = r {
            let at = monlib::last_panic_at();
            if at.starts_with("/repo/") {
                // The panic was raised by the library's own source (an assertion, an index, an
                // unwrap) during a call the monitor did not wrap - constructors, clones, queries.
                // The monitors only make documented-legal calls, so this is the library's failure.
                rep.eval(format!("unguarded-call-panic/{}", idx));
                rep.violation(format!("{}/library-panic-outside-guard", property_of(args)), format!("case {}: the library panicked at {} in a call the monitor makes unguarded (constructor / clone / query): {}", idx, at, msg), args.replay_args(idx, crate::plat::P::Native));
                k += threads;
                continue;
            }
            rep.count("harness_panics", 1);
            rep.inconclusive.push(format!("harness panic in case {}: {}", idx, msg));
        }
        k += threads;
    }
    rep
}

pub fn emit(args: &Args, monitor: &str, rule: &str, rep: &Report) {
    let j = rep.to_json(monitor, rule).to_string();
    match &args.out {
        Some(p) => std::fs::write(p, j).expect("write report"),
        None => println!("{}", j),
    }
}

/// Property a monitor's verdicts are filed under.
pub fn property_of(args: &Args) -> String {
    let m = args.monitor.as_str();
    match m {
        "kern" => "C05".into(),
        "probes" => "C07".into(),
        "xt" => "XT".into(),
        "huge" => match args.get("what").unwrap_or("oneshot") {
            "hasher" => "C02".into(),
            "rayon" => "C08".into(),
            "file" => "C11".into(),
            "refimpl" => "C15".into(),
            _ => "C01".into(),
        },
        _ if m.len() == 3 && m.starts_with('c') => m.to_uppercase(),
        _ => "C00".into(),
    }
}
