//! Interposes libc's `free` for the whole process. When armed on the calling thread, every block
//! handed to `free` is scanned for registered secret windows *before* it is released. This observes
//! what is left in memory when an object dies: a `zeroize()` whose stores the optimiser removed
//! (dead-store elimination of a non-volatile wipe right before the deallocation) is invisible to
//! any check that reads the object back (the read keeps the store alive), but not to the allocator
//! that receives the dying block. (A Rust `#[global_allocator]` would not do: its `dealloc` is
//! ordinary code that reads the block, which keeps the stores alive as well.)
use std::cell::{Cell, RefCell};
use std::ffi::c_void;

extern "C" {
    fn __libc_free(p: *mut c_void);
    fn malloc_usable_size(p: *mut c_void) -> usize;
}

thread_local! {
    static ARMED: Cell<bool> = const { Cell::new(false) };
    static FOUND: Cell<u64> = const { Cell::new(0) };
    static FREES: Cell<u64> = const { Cell::new(0) };
    static LIMIT: Cell<usize> = const { Cell::new(4096) };
    static LAST: Cell<(usize, [u8; 8])> = const { Cell::new((0, [0; 8])) };
    static NEEDLES: RefCell<Vec<[u8; 8]>> = const { RefCell::new(Vec::new()) };
}

#[no_mangle]
pub unsafe extern "C" fn free(p: *mut c_void) {
    if !p.is_null() {
        let armed = ARMED.try_with(|a| a.replace(false)).unwrap_or(false);
        if armed {
            // only the object itself: the slack malloc adds behind it holds stale heap data
            let n = malloc_usable_size(p).min(LIMIT.try_with(|l| l.get()).unwrap_or(0));
            if n >= 8 {
                let block = core::slice::from_raw_parts(p as *const u8, n);
                let _ = FREES.try_with(|f| f.set(f.get() + 1));
                let _ = NEEDLES.try_with(|nd| {
                    if let Ok(nd) = nd.try_borrow() {
                        for (off, w) in block.windows(8).enumerate() {
                            let w8: [u8; 8] = [w[0], w[1], w[2], w[3], w[4], w[5], w[6], w[7]];
                            if nd.binary_search(&w8).is_ok() {
                                let _ = FOUND.try_with(|f| f.set(f.get() + 1));
                                let _ = LAST.try_with(|l| l.set((off, w8)));
                                break;
                            }
                        }
                    }
                });
            }
            let _ = ARMED.try_with(|a| a.set(true));
        }
    }
    __libc_free(p)
}

/// Scan at most the first `n` bytes of the blocks freed next on this thread.
pub fn set_limit(n: usize) {
    LIMIT.with(|l| l.set(n));
}

/// (offset, window) of the most recent hit on this thread.
pub fn last_hit() -> (usize, [u8; 8]) {
    LAST.with(|l| l.get())
}

pub fn found_so_far() -> u64 {
    FOUND.with(|x| x.get())
}
pub fn frees_seen() -> u64 {
    FREES.with(|x| x.get())
}

/// Run `f` with the scanner armed for the given 8-byte secret windows; returns how many freed
/// blocks still contained one of them.
pub fn freed_blocks_holding<R>(mut needles: Vec<[u8; 8]>, f: impl FnOnce() -> R) -> (R, u64) {
    needles.sort_unstable();
    NEEDLES.with(|n| *n.borrow_mut() = needles);
    FOUND.with(|x| x.set(0));
    ARMED.with(|a| a.set(true));
    let r = f();
    ARMED.with(|a| a.set(false));
    let found = FOUND.with(|x| x.get());
    NEEDLES.with(|n| n.borrow_mut().clear());
    (r, found)
}
