//! A minimal *non-self-describing* serde format (bincode-style): sequences and maps carry a
//! u64 length prefix, tuples / arrays / structs do not, integers are fixed-width little-endian.
//! Used by C14 to check that `Hash` round-trips through a format that cannot paper over a
//! disagreement between the Serialize and Deserialize impls about "sequence" versus "tuple".
use serde::de::{self, DeserializeSeed, SeqAccess, Visitor};
use serde::ser::{self, Serialize};
use std::fmt;

#[derive(Debug)]
pub struct Error(pub String);
impl fmt::Display for Error {
    fn fmt(&self, f: &mut fmt::Formatter) -> fmt::Result {
        f.write_str(&self.0)
    }
}
impl std::error::Error for Error {}
impl ser::Error for Error {
    fn custom<T: fmt::Display>(msg: T) -> Self {
        Error(msg.to_string())
    }
}
impl de::Error for Error {
    fn custom<T: fmt::Display>(msg: T) -> Self {
        Error(msg.to_string())
    }
}

pub fn to_bytes<T: Serialize>(v: &T) -> Result<Vec<u8>, Error> {
    let mut s = Ser { out: Vec::new() };
    v.serialize(&mut s)?;
    Ok(s.out)
}

pub fn from_bytes<'a, T: de::Deserialize<'a>>(b: &'a [u8]) -> Result<(T, usize), Error> {
    let mut d = De { inp: b, pos: 0 };
    let v = T::deserialize(&mut d)?;
    Ok((v, d.pos))
}

pub struct Ser {
    out: Vec<u8>,
}

macro_rules! ser_int {
    ($name:ident, $t:ty) => {
        fn $name(self, v: $t) -> Result<(), Error> {
            self.out.extend_from_slice(&v.to_le_bytes());
            Ok(())
        }
    };
}

impl<'a> ser::Serializer for &'a mut Ser {
    type Ok = ();
    type Error = Error;
    type SerializeSeq = Self;
    type SerializeTuple = Self;
    type SerializeTupleStruct = Self;
    type SerializeTupleVariant = Self;
    type SerializeMap = Self;
    type SerializeStruct = Self;
    type SerializeStructVariant = Self;
    fn serialize_bool(self, v: bool) -> Result<(), Error> {
        self.out.push(v as u8);
        Ok(())
    }
    ser_int!(serialize_i8, i8);
    ser_int!(serialize_i16, i16);
    ser_int!(serialize_i32, i32);
    ser_int!(serialize_i64, i64);
    ser_int!(serialize_u8, u8);
    ser_int!(serialize_u16, u16);
    ser_int!(serialize_u32, u32);
    ser_int!(serialize_u64, u64);
    ser_int!(serialize_f32, f32);
    ser_int!(serialize_f64, f64);
    fn serialize_char(self, v: char) -> Result<(), Error> {
        self.serialize_u32(v as u32)
    }
    fn serialize_str(self, v: &str) -> Result<(), Error> {
        self.serialize_bytes(v.as_bytes())
    }
    fn serialize_bytes(self, v: &[u8]) -> Result<(), Error> {
        self.out.extend_from_slice(&(v.len() as u64).to_le_bytes());
        self.out.extend_from_slice(v);
        Ok(())
    }
    fn serialize_none(self) -> Result<(), Error> {
        self.out.push(0);
        Ok(())
    }
    fn serialize_some<T: ?Sized + Serialize>(self, v: &T) -> Result<(), Error> {
        self.out.push(1);
        v.serialize(self)
    }
    fn serialize_unit(self) -> Result<(), Error> {
        Ok(())
    }
    fn serialize_unit_struct(self, _: &'static str) -> Result<(), Error> {
        Ok(())
    }
    fn serialize_unit_variant(self, _: &'static str, i: u32, _: &'static str) -> Result<(), Error> {
        self.serialize_u32(i)
    }
    fn serialize_newtype_struct<T: ?Sized + Serialize>(self, _: &'static str, v: &T) -> Result<(), Error> {
        v.serialize(self)
    }
    fn serialize_newtype_variant<T: ?Sized + Serialize>(self, _: &'static str, i: u32, _: &'static str, v: &T) -> Result<(), Error> {
        self.out.extend_from_slice(&i.to_le_bytes());
        v.serialize(self)
    }
    fn serialize_seq(self, len: Option<usize>) -> Result<Self, Error> {
        let n = len.ok_or_else(|| Error("sequence of unknown length".into()))?;
        self.out.extend_from_slice(&(n as u64).to_le_bytes());
        Ok(self)
    }
    fn serialize_tuple(self, _: usize) -> Result<Self, Error> {
        Ok(self)
    }
    fn serialize_tuple_struct(self, _: &'static str, _: usize) -> Result<Self, Error> {
        Ok(self)
    }
    fn serialize_tuple_variant(self, _: &'static str, i: u32, _: &'static str, _: usize) -> Result<Self, Error> {
        self.out.extend_from_slice(&i.to_le_bytes());
        Ok(self)
    }
    fn serialize_map(self, len: Option<usize>) -> Result<Self, Error> {
        let n = len.ok_or_else(|| Error("map of unknown length".into()))?;
        self.out.extend_from_slice(&(n as u64).to_le_bytes());
        Ok(self)
    }
    fn serialize_struct(self, _: &'static str, _: usize) -> Result<Self, Error> {
        Ok(self)
    }
    fn serialize_struct_variant(self, _: &'static str, i: u32, _: &'static str, _: usize) -> Result<Self, Error> {
        self.out.extend_from_slice(&i.to_le_bytes());
        Ok(self)
    }
}

macro_rules! ser_compound {
    ($tr:ident, $f:ident) => {
        impl<'a> ser::$tr for &'a mut Ser {
            type Ok = ();
            type Error = Error;
            fn $f<T: ?Sized + Serialize>(&mut self, v: &T) -> Result<(), Error> {
                v.serialize(&mut **self)
            }
            fn end(self) -> Result<(), Error> {
                Ok(())
            }
        }
    };
}
ser_compound!(SerializeSeq, serialize_element);
ser_compound!(SerializeTuple, serialize_element);
ser_compound!(SerializeTupleStruct, serialize_field);
ser_compound!(SerializeTupleVariant, serialize_field);
impl<'a> ser::SerializeMap for &'a mut Ser {
    type Ok = ();
    type Error = Error;
    fn serialize_key<T: ?Sized + Serialize>(&mut self, k: &T) -> Result<(), Error> {
        k.serialize(&mut **self)
    }
    fn serialize_value<T: ?Sized + Serialize>(&mut self, v: &T) -> Result<(), Error> {
        v.serialize(&mut **self)
    }
    fn end(self) -> Result<(), Error> {
        Ok(())
    }
}
impl<'a> ser::SerializeStruct for &'a mut Ser {
    type Ok = ();
    type Error = Error;
    fn serialize_field<T: ?Sized + Serialize>(&mut self, _: &'static str, v: &T) -> Result<(), Error> {
        v.serialize(&mut **self)
    }
    fn end(self) -> Result<(), Error> {
        Ok(())
    }
}
impl<'a> ser::SerializeStructVariant for &'a mut Ser {
    type Ok = ();
    type Error = Error;
    fn serialize_field<T: ?Sized + Serialize>(&mut self, _: &'static str, v: &T) -> Result<(), Error> {
        v.serialize(&mut **self)
    }
    fn end(self) -> Result<(), Error> {
        Ok(())
    }
}

pub struct De<'a> {
    inp: &'a [u8],
    pos: usize,
}

impl<'a> De<'a> {
    fn take(&mut self, n: usize) -> Result<&'a [u8], Error> {
        if self.pos + n > self.inp.len() {
            return Err(Error("unexpected end of input".into()));
        }
        let s = &self.inp[self.pos..self.pos + n];
        self.pos += n;
        Ok(s)
    }
    fn u64(&mut self) -> Result<u64, Error> {
        Ok(u64::from_le_bytes(self.take(8)?.try_into().unwrap()))
    }
}

struct Counted<'b, 'a> {
    de: &'b mut De<'a>,
    left: usize,
}
impl<'de, 'b> SeqAccess<'de> for Counted<'b, 'de> {
    type Error = Error;
    fn next_element_seed<T: DeserializeSeed<'de>>(&mut self, seed: T) -> Result<Option<T::Value>, Error> {
        if self.left == 0 {
            return Ok(None);
        }
        self.left -= 1;
        seed.deserialize(&mut *self.de).map(Some)
    }
    fn size_hint(&self) -> Option<usize> {
        Some(self.left)
    }
}

macro_rules! de_int {
    ($name:ident, $visit:ident, $t:ty, $n:expr) => {
        fn $name<V: Visitor<'de>>(self, v: V) -> Result<V::Value, Error> {
            v.$visit(<$t>::from_le_bytes(self.take($n)?.try_into().unwrap()))
        }
    };
}

impl<'de, 'b> de::Deserializer<'de> for &'b mut De<'de> {
    type Error = Error;
    fn deserialize_any<V: Visitor<'de>>(self, _: V) -> Result<V::Value, Error> {
        Err(Error("this format is not self-describing".into()))
    }
    fn deserialize_bool<V: Visitor<'de>>(self, v: V) -> Result<V::Value, Error> {
        v.visit_bool(self.take(1)?[0] != 0)
    }
    de_int!(deserialize_i8, visit_i8, i8, 1);
    de_int!(deserialize_i16, visit_i16, i16, 2);
    de_int!(deserialize_i32, visit_i32, i32, 4);
    de_int!(deserialize_i64, visit_i64, i64, 8);
    de_int!(deserialize_u8, visit_u8, u8, 1);
    de_int!(deserialize_u16, visit_u16, u16, 2);
    de_int!(deserialize_u32, visit_u32, u32, 4);
    de_int!(deserialize_u64, visit_u64, u64, 8);
    de_int!(deserialize_f32, visit_f32, f32, 4);
    de_int!(deserialize_f64, visit_f64, f64, 8);
    fn deserialize_char<V: Visitor<'de>>(self, v: V) -> Result<V::Value, Error> {
        let c = u32::from_le_bytes(self.take(4)?.try_into().unwrap());
        v.visit_char(char::from_u32(c).ok_or_else(|| Error("bad char".into()))?)
    }
    fn deserialize_str<V: Visitor<'de>>(self, v: V) -> Result<V::Value, Error> {
        let n = self.u64()? as usize;
        let b = self.take(n)?;
        v.visit_borrowed_str(std::str::from_utf8(b).map_err(|e| Error(e.to_string()))?)
    }
    fn deserialize_string<V: Visitor<'de>>(self, v: V) -> Result<V::Value, Error> {
        self.deserialize_str(v)
    }
    fn deserialize_bytes<V: Visitor<'de>>(self, v: V) -> Result<V::Value, Error> {
        let n = self.u64()? as usize;
        v.visit_borrowed_bytes(self.take(n)?)
    }
    fn deserialize_byte_buf<V: Visitor<'de>>(self, v: V) -> Result<V::Value, Error> {
        self.deserialize_bytes(v)
    }
    fn deserialize_option<V: Visitor<'de>>(self, v: V) -> Result<V::Value, Error> {
        if self.take(1)?[0] == 0 {
            v.visit_none()
        } else {
            v.visit_some(self)
        }
    }
    fn deserialize_unit<V: Visitor<'de>>(self, v: V) -> Result<V::Value, Error> {
        v.visit_unit()
    }
    fn deserialize_unit_struct<V: Visitor<'de>>(self, _: &'static str, v: V) -> Result<V::Value, Error> {
        v.visit_unit()
    }
    fn deserialize_newtype_struct<V: Visitor<'de>>(self, _: &'static str, v: V) -> Result<V::Value, Error> {
        v.visit_newtype_struct(self)
    }
    fn deserialize_seq<V: Visitor<'de>>(self, v: V) -> Result<V::Value, Error> {
        let n = self.u64()? as usize;
        if n > self.inp.len() {
            return Err(Error("sequence length exceeds input".into()));
        }
        v.visit_seq(Counted { de: self, left: n })
    }
    fn deserialize_tuple<V: Visitor<'de>>(self, len: usize, v: V) -> Result<V::Value, Error> {
        v.visit_seq(Counted { de: self, left: len })
    }
    fn deserialize_tuple_struct<V: Visitor<'de>>(self, _: &'static str, len: usize, v: V) -> Result<V::Value, Error> {
        self.deserialize_tuple(len, v)
    }
    fn deserialize_map<V: Visitor<'de>>(self, _: V) -> Result<V::Value, Error> {
        Err(Error("maps are not needed here".into()))
    }
    fn deserialize_struct<V: Visitor<'de>>(self, _: &'static str, fields: &'static [&'static str], v: V) -> Result<V::Value, Error> {
        self.deserialize_tuple(fields.len(), v)
    }
    fn deserialize_enum<V: Visitor<'de>>(self, _: &'static str, _: &'static [&'static str], _: V) -> Result<V::Value, Error> {
        Err(Error("enums are not needed here".into()))
    }
    fn deserialize_identifier<V: Visitor<'de>>(self, _: V) -> Result<V::Value, Error> {
        Err(Error("identifiers are not needed here".into()))
    }
    fn deserialize_ignored_any<V: Visitor<'de>>(self, _: V) -> Result<V::Value, Error> {
        Err(Error("this format is not self-describing".into()))
    }
    fn is_human_readable(&self) -> bool {
        false
    }
}
