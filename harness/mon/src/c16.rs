//! C16: RustCrypto trait impls and the legacy guts API agree with the inherent API / the spec.
#![allow(deprecated)]
use crate::kern::counter_class;
use crate::run::{self, Args};
use blake3::traits::digest::{self, Digest, DynDigest, ExtendableOutput, ExtendableOutputReset, FixedOutput, FixedOutputReset, KeyInit, Mac, Reset, Update, XofReader};
use blake3::Hasher;
use monlib::{gen, guarded, hex, Json, Report, Rng};
use specmodel::{Mode, Stream};

fn arr32(b: &[u8; 32]) -> digest::Output<Hasher> {
    let mut o = digest::Output::<Hasher>::default();
    o.copy_from_slice(b);
    o
}

fn trait_case(args: &Args, idx: u64, rng: &mut Rng, rep: &mut Report) {
    let keyed = rng.chance(1, 2);
    let key = gen::key(rng);
    let mode = if keyed { Mode::Keyed(key) } else { Mode::Hash };
    let mut m = Stream::new(&mode);
    // one history in twelve works with large slices and long reads (size thresholds inside the trait
    // impls: offloading, parallel long reads)
    let large = !cfg!(miri) && rng.chance(1, 12);
    let pool = gen::content(rng, if large { 700 * 1024 } else { 48 * 1024 });
    let prefix_len = gen::hostile_len(rng, 2000);
    let mut ops: Vec<String> = Vec::new();
    let mut failed: Option<(String, String)> = None;
    // construction through traits
    let mut h: Hasher = if keyed {
        if rng.chance(1, 2) {
            ops.push("KeyInit::new".into());
            <Hasher as KeyInit>::new(&arr32(&key))
        } else {
            ops.push("KeyInit::new_from_slice".into());
            match <Hasher as KeyInit>::new_from_slice(&key) {
                Ok(h) => h,
                Err(_) => {
                    rep.violation("C16/KeyInit/new_from_slice-rejected", "a 32-byte key was rejected".to_string(), args.replay_args(idx, crate::plat::P::Native));
                    return;
                }
            }
        }
    } else if rng.chance(1, 2) {
        ops.push("Digest::new".into());
        <Hasher as Digest>::new()
    } else {
        ops.push(format!("Digest::new_with_prefix({})", prefix_len));
        m.push(&pool[..prefix_len]);
        <Hasher as Digest>::new_with_prefix(&pool[..prefix_len])
    };
    if keyed {
        for bad in [0usize, 31, 33, 64] {
            if <Hasher as KeyInit>::new_from_slice(&pool[..bad]).is_ok() {
                rep.violation("C16/KeyInit/bad-length-accepted", format!("a {}-byte key was accepted", bad), args.replay_args(idx, crate::plat::P::Native));
            }
        }
    }
    macro_rules! fail {
        ($class:expr, $($arg:tt)*) => {{ if failed.is_none() { failed = Some(($class.to_string(), format!($($arg)*))); } }};
    }
    // A hasher that was re-pointed with the hazmat offset and has absorbed nothing yet: a trait-level
    // reset must bring it back to the freshly constructed state (offset 0) like the inherent one.
    if m.bytes.is_empty() && rng.chance(1, 6) {
        use blake3::hazmat::HasherExt;
        let c = 1 + (rng.u64() >> rng.below(60)) % (1 << 40);
        let r = guarded(|| {
            h.set_input_offset(c.wrapping_mul(1024));
            if rng.chance(1, 2) {
                Reset::reset(&mut h);
            } else {
                Digest::reset(&mut h);
            }
        });
        ops.push(format!("hazmat set_input_offset({}*1024); Reset::reset", c));
        rep.seen("trait_methods_called", "Reset::reset after hazmat offset");
        if let Err(p) = r {
            fail!("traits/panic", "set_input_offset + trait reset panicked: {}", p);
        }
    }
    let nops = 2 + rng.usize_below(12);
    for _ in 0..nops {
        if failed.is_some() {
            break;
        }
        let want32 = m.root().root_hash();
        let node = m.root();
        let k = rng.below(if keyed { 26 } else { 19 });
        let mut n = gen::hostile_len(rng, 6000);
        let mut xl = gen::hostile_outlen(rng, 700);
        if large && rng.chance(1, 2) {
            // around 64 KiB / 128 KiB / 256 KiB / 512 KiB, from whatever partial-chunk state the
            // hasher is in
            n = ((64usize << 10) << rng.usize_below(4)) + rng.usize_below(1100);
            n = n.min(pool.len() - 1);
            xl = if rng.chance(1, 2) { (1 << 20) + rng.usize_below(1 << 19) } else { (1 << 16) + rng.usize_below(1 << 18) };
        }
        let off = rng.usize_below(pool.len() - n);
        let d = &pool[off..off + n];
        let wantx = node.root_bytes(0, xl);
        let r: Result<(), String> = guarded(|| -> Result<(), String> {
            match k {
                0 => {
                    ops.push(format!("Update::update({})", n));
                    Update::update(&mut h, d);
                    m.push(d);
                }
                1 => {
                    ops.push(format!("Update::chain({})", n));
                    h = Update::chain(h.clone(), d);
                    m.push(d);
                }
                2 => {
                    ops.push(format!("Digest::update({})", n));
                    Digest::update(&mut h, d);
                    m.push(d);
                }
                3 => {
                    ops.push(format!("Digest::chain_update({})", n));
                    h = Digest::chain_update(h.clone(), d);
                    m.push(d);
                }
                4 => {
                    ops.push(format!("inherent update({})", n));
                    h.update(d);
                    m.push(d);
                }
                5 => {
                    ops.push("Digest::finalize(clone)".into());
                    let o = Digest::finalize(h.clone());
                    if o[..] != want32 {
                        return Err(format!("Digest::finalize gave {} want {}", hex(&o), hex(&want32)));
                    }
                    let mut o2 = digest::Output::<Hasher>::default();
                    Digest::finalize_into(h.clone(), &mut o2);
                    let mut o3 = digest::Output::<Hasher>::default();
                    FixedOutput::finalize_into(h.clone(), &mut o3);
                    let o4 = FixedOutput::finalize_fixed(h.clone());
                    if o2[..] != want32 || o3[..] != want32 || o4[..] != want32 {
                        return Err("finalize_into / FixedOutput variants disagree with the specification".into());
                    }
                }
                6 => {
                    ops.push("Digest::finalize_reset".into());
                    let o = Digest::finalize_reset(&mut h);
                    m.clear();
                    if o[..] != want32 {
                        return Err(format!("Digest::finalize_reset gave {} want {}", hex(&o), hex(&want32)));
                    }
                }
                7 => {
                    ops.push("Digest::finalize_into_reset".into());
                    let mut o = digest::Output::<Hasher>::default();
                    Digest::finalize_into_reset(&mut h, &mut o);
                    m.clear();
                    if o[..] != want32 {
                        return Err("Digest::finalize_into_reset output differs from the specification".into());
                    }
                }
                8 => {
                    ops.push("FixedOutputReset::finalize_into_reset/finalize_fixed_reset".into());
                    if rng.chance(1, 2) {
                        let mut o = digest::Output::<Hasher>::default();
                        FixedOutputReset::finalize_into_reset(&mut h, &mut o);
                        if o[..] != want32 {
                            return Err("FixedOutputReset::finalize_into_reset output differs".into());
                        }
                    } else {
                        let o = FixedOutputReset::finalize_fixed_reset(&mut h);
                        if o[..] != want32 {
                            return Err("FixedOutputReset::finalize_fixed_reset output differs".into());
                        }
                    }
                    m.clear();
                }
                9 => {
                    ops.push("Reset::reset / Digest::reset".into());
                    if rng.chance(1, 2) {
                        Reset::reset(&mut h);
                    } else {
                        Digest::reset(&mut h);
                    }
                    m.clear();
                }
                10 => {
                    ops.push(format!("ExtendableOutput::finalize_xof + XofReader::read({})", xl));
                    let mut rd = ExtendableOutput::finalize_xof(h.clone());
                    let mut o = vec![0u8; xl];
                    let split = if xl > 4096 && rng.chance(1, 2) { 1 + rng.usize_below(300) } else if xl > 0 { rng.usize_below(xl + 1) } else { 0 };
                    XofReader::read(&mut rd, &mut o[..split]);
                    XofReader::read(&mut rd, &mut o[split..]);
                    if o != wantx {
                        return Err(format!("XofReader::read of {} bytes (split at {}) differs from the specification", xl, split));
                    }
                    let more = XofReader::read_boxed(&mut rd, 40);
                    if more[..] != node.root_bytes(xl as u64, 40)[..] {
                        return Err("XofReader::read_boxed continuation differs".into());
                    }
                }
                11 => {
                    ops.push(format!("ExtendableOutput::finalize_xof_into/finalize_boxed({})", xl));
                    let mut o = vec![0u8; xl];
                    ExtendableOutput::finalize_xof_into(h.clone(), &mut o);
                    let b = ExtendableOutput::finalize_boxed(h.clone(), xl);
                    if o != wantx || b[..] != wantx[..] {
                        return Err("finalize_xof_into / finalize_boxed differ from the specification".into());
                    }
                }
                12 => {
                    ops.push(format!("ExtendableOutputReset::finalize_xof_reset({})", xl));
                    let mut rd = ExtendableOutputReset::finalize_xof_reset(&mut h);
                    m.clear();
                    let mut o = vec![0u8; xl];
                    XofReader::read(&mut rd, &mut o);
                    if o != wantx {
                        return Err("finalize_xof_reset reader differs from the specification (reset before reading?)".into());
                    }
                }
                13 => {
                    ops.push(format!("ExtendableOutputReset::finalize_xof_reset_into/finalize_boxed_reset({})", xl));
                    if rng.chance(1, 2) {
                        let mut o = vec![0u8; xl];
                        ExtendableOutputReset::finalize_xof_reset_into(&mut h, &mut o);
                        if o != wantx {
                            return Err("finalize_xof_reset_into differs".into());
                        }
                    } else {
                        let b = ExtendableOutputReset::finalize_boxed_reset(&mut h, xl);
                        if b[..] != wantx[..] {
                            return Err("finalize_boxed_reset differs".into());
                        }
                    }
                    m.clear();
                }
                14 => {
                    ops.push(format!("DynDigest update({})/finalize_reset", n));
                    let dd: &mut dyn DynDigest = &mut h;
                    dd.update(d);
                    m.push(d);
                    let want = m.root().root_hash();
                    if dd.output_size() != 32 {
                        return Err("DynDigest::output_size != 32".into());
                    }
                    let c = dd.box_clone();
                    let o1 = c.finalize();
                    let o2 = dd.finalize_reset();
                    m.clear();
                    if o1[..] != want || o2[..] != want {
                        return Err("DynDigest finalize/finalize_reset differ from the specification".into());
                    }
                }
                15 => {
                    ops.push("DynDigest finalize_into / finalize_into_reset (also wrong sizes)".into());
                    let mut buf = [0u8; 32];
                    DynDigest::finalize_into(h.clone(), &mut buf).map_err(|_| "32-byte buffer rejected".to_string())?;
                    if buf != want32 {
                        return Err("DynDigest::finalize_into differs".into());
                    }
                    let mut small = [0u8; 31];
                    if DynDigest::finalize_into(h.clone(), &mut small).is_ok() {
                        return Err("DynDigest::finalize_into accepted a 31-byte buffer".into());
                    }
                    let dd: &mut dyn DynDigest = &mut h;
                    let mut big = [0u8; 33];
                    if dd.finalize_into_reset(&mut big).is_ok() {
                        return Err("DynDigest::finalize_into_reset accepted a 33-byte buffer".into());
                    }
                    dd.finalize_into_reset(&mut buf).map_err(|_| "32-byte buffer rejected".to_string())?;
                    m.clear();
                    if buf != want32 {
                        return Err("DynDigest::finalize_into_reset differs".into());
                    }
                }
                16 => {
                    ops.push(format!("Digest::digest / digest_xof({})", n));
                    let o = <Hasher as Digest>::digest(d);
                    let want = specmodel::hash(&Mode::Hash, d);
                    let mut x = vec![0u8; xl];
                    <Hasher as ExtendableOutput>::digest_xof(d, &mut x);
                    if o[..] != want || x[..] != specmodel::xof(&Mode::Hash, d, 0, xl)[..] {
                        return Err("Digest::digest / ExtendableOutput::digest_xof differ from the specification".into());
                    }
                }
                17 | 18 => {
                    ops.push("inherent finalize/count".into());
                    if *Hasher::finalize(&h).as_bytes() != want32 || h.count() != m.bytes.len() as u64 {
                        return Err(format!("inherent finalize/count disagree with the model after trait ops ({} bytes)", m.bytes.len()));
                    }
                }
                // ---- Mac (keyed only) ----
                19 => {
                    ops.push(format!("Mac::update({})", n));
                    Mac::update(&mut h, d);
                    m.push(d);
                }
                20 => {
                    ops.push(format!("Mac::chain_update({})", n));
                    h = Mac::chain_update(h.clone(), d);
                    m.push(d);
                }
                21 => {
                    ops.push("Mac::finalize / finalize_reset".into());
                    let o = Mac::finalize(h.clone()).into_bytes();
                    let o2 = Mac::finalize_reset(&mut h).into_bytes();
                    m.clear();
                    if o[..] != want32 || o2[..] != want32 {
                        return Err("Mac::finalize / finalize_reset differ from the specification".into());
                    }
                }
                22 => {
                    ops.push("Mac::verify / verify_slice (good and bad tags)".into());
                    let good = arr32(&want32);
                    let mut badb = want32;
                    badb[rng.usize_below(32)] ^= 1 << rng.below(8);
                    if Mac::verify(h.clone(), &good).is_err() || Mac::verify_slice(h.clone(), &want32).is_err() {
                        return Err("Mac::verify rejected the correct tag".into());
                    }
                    if Mac::verify(h.clone(), &arr32(&badb)).is_ok() || Mac::verify_slice(h.clone(), &badb).is_ok() || Mac::verify_slice(h.clone(), &want32[..31]).is_ok() {
                        return Err("Mac::verify accepted a wrong tag".into());
                    }
                }
                23 => {
                    ops.push("Mac::verify_reset / verify_slice_reset".into());
                    let good = arr32(&want32);
                    if rng.chance(1, 2) {
                        if Mac::verify_reset(&mut h, &good).is_err() {
                            return Err("Mac::verify_reset rejected the correct tag".into());
                        }
                    } else if Mac::verify_slice_reset(&mut h, &want32).is_err() {
                        return Err("Mac::verify_slice_reset rejected the correct tag".into());
                    }
                    m.clear();
                }
                24 => {
                    ops.push("Mac::verify_truncated_left/right".into());
                    let t = 1 + rng.usize_below(31);
                    if Mac::verify_truncated_left(h.clone(), &want32[..t]).is_err() || Mac::verify_truncated_right(h.clone(), &want32[32 - t..]).is_err() {
                        return Err(format!("Mac::verify_truncated_* rejected a correct {}-byte truncation", t));
                    }
                    let mut bad = want32[..t].to_vec();
                    bad[0] ^= 0x80;
                    if Mac::verify_truncated_left(h.clone(), &bad).is_ok() {
                        return Err("Mac::verify_truncated_left accepted a wrong tag".into());
                    }
                }
                _ => {
                    ops.push("Mac::reset".into());
                    Mac::reset(&mut h);
                    m.clear();
                }
            }
            Ok(())
        })
        .unwrap_or_else(|p| Err(format!("panicked: {}", p)));
        if let Err(e) = r {
            fail!(ops.last().cloned().unwrap_or_default().split(['(', ' ']).next().unwrap_or("op"), "{}", e);
        }
        // after every op, the instance must behave like a hasher of the model's bytes
        if failed.is_none() {
            let want = m.root().root_hash();
            match guarded(|| (*Hasher::finalize(&h).as_bytes(), h.count())) {
                Ok((g, c)) => {
                    if g != want || c != m.bytes.len() as u64 {
                        fail!("post-state", "after {:?} the hasher holds state for {} bytes / hash {} but the model has {} bytes / {}", ops.last(), c, hex(&g), m.bytes.len(), hex(&want));
                    }
                }
                Err(p) => fail!("post-state", "finalize after {:?} panicked: {}", ops.last(), p),
            }
        }
    }
    rep.eval(format!("traits/{}/{:x}", keyed, { let mut f = monlib::Fnv::new(); for o in &ops { f.add(o.as_bytes()); } f.0 }));
    for o in &ops {
        rep.seen("trait_ops", o.split(['(', ' ']).next().unwrap_or("").to_string());
    }
    if idx % 1500 == 0 {
        rep.sample(Json::obj(vec![("kind", Json::s("trait history")), ("keyed", Json::Bool(keyed)), ("ops", Json::Arr(ops.iter().map(|s| Json::s(s.clone())).collect()))]));
    }
    if let Some((c, d)) = failed {
        rep.violation(format!("C16/traits/{}", c), format!("{} | keyed={} ops={:?}", d, keyed, ops), args.replay_args(idx, crate::plat::P::Native));
    }
}

fn hmac_case(args: &Args, idx: u64, rng: &mut Rng, rep: &mut Report) {
    use hmac::SimpleHmac;
    let klen = *rng.pick(&[0usize, 1, 31, 32, 63, 64, 65, 100, 1024, 1025]);
    let key = rng.bytes(klen);
    let dlen = gen::hostile_len(rng, 5000);
    let data = rng.bytes(dlen);
    // HMAC from the definition, on top of the model
    let kp: Vec<u8> = if key.len() <= 64 { key.clone() } else { specmodel::hash(&Mode::Hash, &key).to_vec() };
    let mut ipad = [0x36u8; 64];
    let mut opad = [0x5cu8; 64];
    for i in 0..kp.len() {
        ipad[i] ^= kp[i];
        opad[i] ^= kp[i];
    }
    let mut inner = ipad.to_vec();
    inner.extend_from_slice(&data);
    let ih = specmodel::hash(&Mode::Hash, &inner);
    let mut outer = opad.to_vec();
    outer.extend_from_slice(&ih);
    let want = specmodel::hash(&Mode::Hash, &outer);
    let r = guarded(|| {
        let mut x = <SimpleHmac<Hasher> as KeyInit>::new_from_slice(&key).map_err(|_| "key rejected".to_string())?;
        let split = rng.usize_below(dlen + 1);
        Update::update(&mut x, &data[..split]);
        Update::update(&mut x, &data[split..]);
        Ok::<_, String>(Mac::finalize(x).into_bytes())
    });
    rep.eval(format!("hmac/{}/{}", klen, dlen));
    match r {
        Ok(Ok(o)) if o[..] == want => {}
        Ok(Ok(o)) => rep.violation("C16/hmac/mismatch", format!("SimpleHmac<Hasher> with a {}-byte key over {} bytes = {} want {}", klen, dlen, hex(&o), hex(&want)), args.replay_args(idx, crate::plat::P::Native)),
        Ok(Err(e)) => rep.violation("C16/hmac/error", e, args.replay_args(idx, crate::plat::P::Native)),
        Err(p) => rep.violation("C16/hmac/panic", p, args.replay_args(idx, crate::plat::P::Native)),
    }
}

fn guts_case(args: &Args, idx: u64, rng: &mut Rng, rep: &mut Report) {
    use blake3::guts;
    if rng.chance(1, 4) {
        let l = rng.array32();
        let r = rng.array32();
        let root = rng.chance(1, 2);
        let node = specmodel::parent_node(&specmodel::IV, &specmodel::bytes_to_words8(&l), &specmodel::bytes_to_words8(&r), 0);
        let want = if root { node.root_hash() } else { node.cv_bytes() };
        rep.eval(format!("guts/parent_cv/{}/{}", root, hex(&l[..4])));
        match guarded(|| *guts::parent_cv(&l.into(), &r.into(), root).as_bytes()) {
            Ok(g) if g == want => {}
            Ok(g) => rep.violation("C16/guts/parent_cv", format!("parent_cv(is_root={}) = {} want {}", root, hex(&g), hex(&want)), args.replay_args(idx, crate::plat::P::Native)),
            Err(p) => rep.violation("C16/guts/parent_cv/panic", p, args.replay_args(idx, crate::plat::P::Native)),
        }
        return;
    }
    let n = match rng.below(4) {
        0 => *rng.pick(&[0usize, 1, 63, 64, 65, 1023, 1024]),
        _ => rng.usize_below(1025),
    };
    let data = gen::content(rng, n);
    // is_root is only defined for chunk 0 (the only root chunk the specification has)
    let root = rng.chance(1, 3);
    // Debug builds of the crate guard root finalisation of a chunk with a non-zero counter with a
    // debug_assert (documented misuse check), so that combination is only exercised in release
    // builds, where the root hash is the specification's root compression (output block 0) of
    // that chunk's final block.
    let (counter, cname) = if root && (cfg!(debug_assertions) || rng.chance(1, 2)) { (0, "zero") } else { counter_class(rng, 0) };
    let node = specmodel::chunk_node(&specmodel::IV, &data, counter, 0);
    let want = if root { node.root_hash() } else { node.cv_bytes() };
    rep.eval(format!("guts/chunk/{}/{}/{}", cname, n, root));
    let r = guarded(|| {
        let mut cs = guts::ChunkState::new(counter);
        let mut fed = 0;
        while fed < n {
            let k = if rng.chance(1, 3) { n - fed } else { 1 + rng.usize_below(n - fed) };
            cs.update(&data[fed..fed + k]);
            fed += k;
        }
        (cs.len(), *cs.finalize(root).as_bytes(), *cs.clone().finalize(root).as_bytes())
    });
    match r {
        Ok((len, g, g2)) => {
            if len != n {
                rep.violation("C16/guts/len", format!("ChunkState::len()={} after {} bytes", len, n), args.replay_args(idx, crate::plat::P::Native));
            } else if g != want || g2 != want {
                rep.violation("C16/guts/chunk", format!("ChunkState(counter={}, {} bytes).finalize(is_root={}) = {} want {}", counter, n, root, hex(&g), hex(&want)), args.replay_args(idx, crate::plat::P::Native));
            }
        }
        Err(p) => rep.violation("C16/guts/chunk/panic", format!("counter={} len={} root={}: {}", counter, n, root, p), args.replay_args(idx, crate::plat::P::Native)),
    }
}

pub fn run(args: &Args) -> Report {
    let n_traits = args.n(12_000, 3_000_000);
    let n_hmac = args.n(2_000, 300_000);
    let n_guts = args.n(60_000, 20_000_000);
    run::run_cases(args, 16, n_traits + n_hmac + n_guts, |idx, rng, rep| {
        if idx < n_traits {
            trait_case(args, idx, rng, rep);
        } else if idx < n_traits + n_hmac {
            hmac_case(args, idx, rng, rep);
        } else {
            guts_case(args, idx, rng, rep);
        }
    })
}

pub const RULE: &str = "evaluations = histories driven through the RustCrypto traits (Update, Digest, DynDigest, FixedOutput(Reset), ExtendableOutput(Reset), XofReader, Reset, KeyInit, Mac incl. verify variants) interleaved with inherent calls, every output and the state left behind compared with specmodel; SimpleHmac<Hasher> against HMAC built from the model; guts::ChunkState (all counter classes, 0..=1024 bytes in random splits, is_root only for counter 0) and guts::parent_cv against specmodel chunk/parent nodes; distinct = distinct op sequences / parameter tuples";
