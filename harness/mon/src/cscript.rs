//! Generator of op-scripts for the C driver (cdrv): kernel-call records and blake3_hasher API
//! histories, each with the output the specification demands (computed by specmodel; the Rust
//! crate is consulted as a third voice for API histories). Written as binary to stdout.
use crate::kern::counter_class;
use crate::run::Args;
use monlib::{gen, Rng};
use specmodel::{Mode, Stream};
use std::io::Write;

pub const IMPL_NAMES: [&str; 6] = ["portable", "sse2", "sse41", "avx2", "avx512", "dispatch"];
pub const MASKS: [u32; 5] = [0, 1, 1 | 2 | 4, 1 | 2 | 4 | 8 | 16, 1 | 2 | 4 | 8 | 16 | 32 | 64];

#[derive(Clone, Copy, Debug)]
struct Class {
    imp: u8,
    abi: u8,
    kind: u8,
    mask: u32,
}

fn classes(variant: &str, no_avx512: bool) -> Vec<Class> {
    let v = classes_all(variant);
    if no_avx512 {
        v.into_iter().filter(|c| c.imp != 4 && c.mask & 96 == 0).collect()
    } else {
        v
    }
}

fn classes_all(variant: &str) -> Vec<Class> {
    let mut v = Vec::new();
    let kinds_of = |imp: u8, abi: u8| -> Vec<u8> {
        match (imp, abi) {
            (0, 0) => vec![0, 1, 2],
            (1, _) | (2, _) => vec![0, 1, 2],
            (3, _) => vec![2],
            (4, 0) => vec![0, 1, 2, 3],
            (4, 1) => vec![0, 1, 2],
            _ => vec![],
        }
    };
    for imp in 0..5u8 {
        for kind in kinds_of(imp, 0) {
            v.push(Class { imp, abi: 0, kind, mask: 0 });
        }
    }
    if variant == "asm" {
        for imp in 1..5u8 {
            for kind in kinds_of(imp, 1) {
                v.push(Class { imp, abi: 1, kind, mask: 0 });
            }
        }
    }
    for &mask in &MASKS {
        for kind in 0..4u8 {
            v.push(Class { imp: 5, abi: 0, kind, mask });
        }
    }
    v
}

fn w8(o: &mut Vec<u8>, x: u8) {
    o.push(x);
}
fn w32(o: &mut Vec<u8>, x: u32) {
    o.extend_from_slice(&x.to_le_bytes());
}
fn w64(o: &mut Vec<u8>, x: u64) {
    o.extend_from_slice(&x.to_le_bytes());
}

fn placement(rng: &mut Rng) -> u8 {
    match rng.below(4) {
        0 | 1 => 0,
        2 => 1,
        _ => 2 + rng.below(64) as u8,
    }
}
fn placement_aligned4(rng: &mut Rng) -> u8 {
    match rng.below(4) {
        0 | 1 => 0,
        2 => 1,
        _ => 2 + 4 * rng.below(16) as u8,
    }
}

fn words(b: &[u8]) -> [u32; 8] {
    specmodel::bytes_to_words8(b.try_into().unwrap())
}

fn kernel_record(o: &mut Vec<u8>, idx: u64, cls: Class, sub: u64, rng: &mut Rng) {
    let kind = cls.kind;
    let dseed = rng.u64();
    let mut d = Rng::new(dseed, 0);
    let cvb = d.bytes(32);
    let cv = words(&cvb);
    let (block_len, flags, fs, fe, incr, counter, n, blocks): (u8, u8, u8, u8, u8, u64, u32, u32);
    let mut expect: Vec<u8> = Vec::new();
    let mut pl_in: Vec<u8> = Vec::new();
    match kind {
        0 | 1 => {
            block_len = (sub % 65) as u8;
            flags = if rng.chance(1, 2) { ((sub / 65) % 256) as u8 } else { rng.below(256) as u8 };
            fs = 0;
            fe = 0;
            incr = 0;
            counter = counter_class(rng, 0).0;
            n = 0;
            blocks = 0;
            let block = d.bytes(64);
            let out = specmodel::compress(&cv, block[..].try_into().unwrap(), counter, block_len as u32, flags as u32);
            expect = specmodel::words_to_bytes(if kind == 0 { &out[..8] } else { &out[..] });
        }
        2 => {
            n = (sub % 36) as u32;
            blocks = if (sub / 36) % 2 == 0 { 1 } else { 16 };
            incr = ((sub / 72) % 2 == 0) as u8;
            counter = counter_class(rng, n as u64).0;
            let t = match rng.below(5) {
                0 => (0u8, 0u8, 0u8),
                1 => (255, 255, 255),
                2 => (rng.below(128) as u8 & 0x70, 1, 2),
                3 => (4 | (rng.below(128) as u8 & 0x70), 0, 0),
                _ => (rng.below(256) as u8, rng.below(256) as u8, rng.below(256) as u8),
            };
            flags = t.0;
            fs = t.1;
            fe = t.2;
            block_len = 64;
            for i in 0..n {
                let data = d.bytes(blocks as usize * 64);
                let c = if incr == 1 { counter + i as u64 } else { counter };
                expect.extend_from_slice(&specmodel::hash1(&cv, &data, c, flags as u32, fs as u32, fe as u32));
                pl_in.push(placement(rng));
            }
        }
        _ => {
            // one xof_many record in 400 produces a megabyte (size thresholds inside a kernel)
            n = if idx < 500_000 && rng.chance(1, 150) { 16384 + rng.below(48) as u32 } else { 1 + (sub % 35) as u32 };
            block_len = ((sub / 35) % 65) as u8;
            flags = rng.below(256) as u8;
            fs = 0;
            fe = 0;
            incr = 0;
            blocks = 0;
            counter = counter_class(rng, n as u64).0;
            let block = d.bytes(64);
            for i in 0..n {
                expect.extend_from_slice(&specmodel::words_to_bytes(&specmodel::compress(&cv, block[..].try_into().unwrap(), counter + i as u64, block_len as u32, flags as u32)));
            }
        }
    }
    w8(o, b'K');
    w32(o, idx as u32);
    w8(o, cls.imp);
    w8(o, cls.abi);
    w8(o, kind);
    w8(o, block_len);
    w8(o, flags);
    w8(o, fs);
    w8(o, fe);
    w8(o, incr);
    w64(o, counter);
    w32(o, n);
    w32(o, blocks);
    w64(o, dseed);
    w8(o, placement_aligned4(rng)); // cv / key: uint32_t* in the C prototypes
    w8(o, placement(rng));
    if kind == 3 && n >= 16384 {
        w8(o, *rng.pick(&[0u8, 1, 2 + 32, 2 + 32, 2 + 16, 2, 2 + 48, 2 + 33]));
    } else {
        w8(o, placement(rng));
    }
    w8(o, if rng.chance(3, 4) { 0 } else { 2 + 8 * rng.below(8) as u8 }); // pointer array: flush right or 8-byte steps
    o.extend_from_slice(&pl_in);
    w32(o, expect.len() as u32);
    o.extend_from_slice(&expect);
    w32(o, cls.mask);
}

// ---------------------------------------------------------------------------------- API histories
struct SlotModel {
    mode: Mode,
    m: Stream,
    rust: Option<blake3::Hasher>,
}

fn content_bytes(n: usize, seed: u64, klass: u8) -> Vec<u8> {
    match klass {
        1 => vec![0; n],
        2 => vec![0xFF; n],
        3 => (0..n).map(|i| (i % 251) as u8).collect(),
        _ => Rng::new(seed, 0).bytes(n),
    }
}

#[allow(clippy::too_many_arguments)]
fn api_rec(o: &mut Vec<u8>, idx: u64, slot: u8, op: u8, pl_data: u8, pl_out: u8, pl_h: u8, klass: u8, seek: u64, len: u32, dseed: u64, expect: &[u8], mask: u32) {
    w8(o, b'H');
    w32(o, idx as u32);
    w8(o, slot);
    w8(o, op);
    w8(o, pl_data);
    w8(o, pl_out);
    w8(o, pl_h);
    w8(o, klass);
    w64(o, seek);
    w32(o, len);
    w64(o, dseed);
    w32(o, expect.len() as u32);
    o.extend_from_slice(expect);
    w32(o, mask);
}

fn api_history(o: &mut Vec<u8>, idx: u64, rng: &mut Rng, tbb: bool, no_avx512: bool, first_big: u32, disagreements: &mut Vec<String>) {
    let mask = if no_avx512 { *rng.pick(&MASKS[..4]) } else { *rng.pick(&MASKS) };
    let mut slots: Vec<Option<SlotModel>> = (0..4).map(|_| None).collect();
    let nops = 3 + rng.usize_below(12);
    let big = rng.chance(1, 25);
    // --first-big 2: one history in eight opens with a single update of 1..20 MiB (size-threshold
    // behaviour of one thread while the other threads are in the middle of ordinary updates)
    let very_big = first_big >= 2 && rng.chance(1, 8);
    let budget: usize = if very_big { 24 << 20 } else if big { 3 << 20 } else { 128 * 1024 };
    let first_big = first_big >= 1;
    // op 0 is always an init on slot 0
    for step in 0..nops {
        let live: Vec<usize> = (0..4).filter(|i| slots[*i].is_some()).collect();
        let roll = if step == 0 || live.is_empty() { 0 } else { 1 + rng.below(20) };
        match roll {
            0 | 1 => {
                // init (a second init re-initialises a slot in place)
                let slot = if live.is_empty() { 0 } else { rng.usize_below(2) };
                let dseed = rng.u64();
                let (op, len, mode, rust): (u8, u32, Mode, Option<blake3::Hasher>) = match rng.below(4) {
                    0 => (0, 0, Mode::Hash, Some(blake3::Hasher::new())),
                    1 => {
                        let k: [u8; 32] = Rng::new(dseed, 0).bytes(32).try_into().unwrap();
                        (1, 0, Mode::Keyed(k), Some(blake3::Hasher::new_keyed(&k)))
                    }
                    2 => {
                        let len = *rng.pick(&[0usize, 1, 5, 63, 64, 65, 200, 1023, 1024, 1025, 3000]);
                        let mut ctx = Rng::new(dseed, 0).bytes(len);
                        for b in ctx.iter_mut() {
                            if *b == 0 {
                                *b = 0x2a;
                            }
                        }
                        let rust = std::str::from_utf8(&ctx).ok().map(blake3::Hasher::new_derive_key);
                        (2, len as u32, Mode::DeriveKey(ctx), rust)
                    }
                    _ => {
                        let len = *rng.pick(&[0usize, 1, 7, 64, 100, 1024, 1025, 2049, 5000]);
                        let ctx = Rng::new(dseed, 0).bytes(len); // any bytes, NUL included
                        let rust = std::str::from_utf8(&ctx).ok().map(blake3::Hasher::new_derive_key);
                        (3, len as u32, Mode::DeriveKey(ctx), rust)
                    }
                };
                let pl_h = rng.below(3) as u8;
                api_rec(o, idx, slot as u8, op, 0, 0, pl_h, 0, 0, len, dseed, &[], mask);
                slots[slot] = Some(SlotModel { m: Stream::new(&mode), mode, rust });
            }
            2..=9 => {
                let slot = *rng.pick(&live);
                let s = slots[slot].as_mut().unwrap();
                let room = budget.saturating_sub(s.m.bytes.len());
                let n = if first_big && s.m.bytes.is_empty() {
                    // the first update of a history is a single large one (>= 5 chunks), so that a
                    // first call racing with feature detection spans several recursion levels
                    if very_big {
                        ((1usize << 20) << rng.usize_below(5)) + rng.usize_below(1 << 20)
                    } else {
                        (5 * 1024 + rng.usize_below(60 * 1024)).min(room)
                    }
                } else if rng.chance(1, 6) {
                    (1024usize << rng.usize_below(12)).min(room)
                } else {
                    gen::hostile_len(rng, room)
                };
                let dseed = rng.u64();
                let klass = if rng.chance(1, 5) { 1 + rng.below(3) as u8 } else { 0 };
                let pl = if n == 0 && rng.chance(1, 2) { 255 } else { placement(rng) };
                let data = content_bytes(n, dseed, klass);
                s.m.push(&data);
                if let Some(r) = s.rust.as_mut() {
                    r.update(&data);
                }
                let op = if tbb && rng.chance(1, 2) { 8 } else { 4 };
                api_rec(o, idx, slot as u8, op, pl, 0, 0, klass, 0, n as u32, dseed, &[], mask);
            }
            10..=16 => {
                let slot = *rng.pick(&live);
                let s = slots[slot].as_mut().unwrap();
                const OUTS: [usize; 16] = [0, 1, 31, 32, 33, 63, 64, 65, 127, 128, 129, 1023, 1024, 1025, 1041, 2500];
                let len = *rng.pick(&OUTS);
                let seeked = rng.chance(1, 2);
                let seek = if seeked { gen::hostile_seek(rng).min(u64::MAX - 1 - len as u64) } else { 0 };
                let node = s.m.root();
                let want = node.root_bytes(seek, len);
                if let Some(r) = s.rust.as_ref() {
                    let mut got = vec![0u8; len];
                    let mut rd = r.finalize_xof();
                    rd.set_position(seek);
                    rd.fill(&mut got);
                    if got != want {
                        disagreements.push(format!("idx={} rust crate and specmodel disagree on S[{}..+{}] after {} bytes ({})", idx, seek, len, s.m.bytes.len(), gen::mode_name(&s.mode)));
                    }
                }
                let pl_out = if len == 0 && rng.chance(1, 2) { 255 } else { placement(rng) };
                api_rec(o, idx, slot as u8, if seeked { 6 } else { 5 }, 0, pl_out, 0, 0, seek, len as u32, rng.u64(), &want, mask);
            }
            17 | 18 => {
                let slot = *rng.pick(&live);
                let s = slots[slot].as_mut().unwrap();
                s.m.clear();
                if let Some(r) = s.rust.as_mut() {
                    r.reset();
                }
                api_rec(o, idx, slot as u8, 7, 0, 0, 0, 0, 0, 0, 0, &[], mask);
            }
            _ => {
                // struct copy into another slot, then both continue independently
                let src = *rng.pick(&live);
                let dst = (src + 1 + rng.usize_below(3)) % 4;
                let s = slots[src].as_ref().unwrap();
                let c = SlotModel { mode: s.mode.clone(), m: s.m.clone(), rust: s.rust.clone() };
                slots[dst] = Some(c);
                api_rec(o, idx, dst as u8, 9, 0, 0, rng.below(3) as u8, 0, src as u64, 0, 0, &[], mask);
            }
        }
    }
    // always end with a finalize of every live slot
    for slot in 0..4 {
        if let Some(s) = slots[slot].as_mut() {
            let want = s.m.root().root_bytes(0, 64);
            api_rec(o, idx, slot as u8, 5, 0, placement(rng), 0, 0, 0, 64, rng.u64(), &want, mask);
        }
    }
}

pub fn run(args: &Args) {
    let variant = args.get("cvariant").unwrap_or("asm").to_string();
    let what = args.get("what").unwrap_or("kernels").to_string();
    let shard: u64 = args.get("shard").map(|s| s.parse().unwrap()).unwrap_or(0);
    let shards: u64 = args.get("shards").map(|s| s.parse().unwrap()).unwrap_or(1);
    let from: u64 = args.get("from").map(|s| s.parse().unwrap()).unwrap_or(0);
    let tbb = args.get("tbb") == Some("1");
    let only_class = args.get("class").map(|s| s.to_string());
    let total = if what == "kernels" { args.n(600_000, 12_000_000) } else { args.n(4000, 150_000) };
    let no_avx512 = args.get("no-avx512") == Some("1");
    let first_big: u32 = args.get("first-big").map(|v| v.parse().expect("first-big")).unwrap_or(0);
    let cls = classes(&variant, no_avx512);
    let stdout = std::io::stdout();
    let mut out = stdout.lock();
    let mut buf: Vec<u8> = Vec::with_capacity(1 << 20);
    buf.extend_from_slice(b"B3CS");
    w32(&mut buf, 1);
    w32(&mut buf, if variant == "asm" { 0 } else { 1 });
    let mut disagreements = Vec::new();
    let range: Vec<u64> = match args.only {
        Some(i) => vec![i],
        None => (from..total).filter(|i| i % shards == shard).collect(),
    };
    for idx in range {
        let mut rng = Rng::new(args.seed, (if what == "kernels" { 0x6B00_0000_0000u64 } else { 0x6A00_0000_0000u64 }).wrapping_add(idx));
        if what == "kernels" {
            let c = cls[(idx % cls.len() as u64) as usize];
            if let Some(f) = &only_class {
                let name = format!("{}/{}", IMPL_NAMES[c.imp as usize], if c.abi == 1 { "win64" } else { "sysv" });
                if !name.starts_with(f.as_str()) {
                    continue;
                }
            }
            kernel_record(&mut buf, idx, c, idx / cls.len() as u64, &mut rng);
        } else {
            api_history(&mut buf, idx, &mut rng, tbb, no_avx512, first_big, &mut disagreements);
        }
        if buf.len() > (1 << 20) {
            out.write_all(&buf).expect("write script");
            buf.clear();
        }
    }
    out.write_all(&buf).expect("write script");
    out.flush().ok();
    for d in disagreements.iter().take(20) {
        eprintln!("THIRD-VOICE-DISAGREE {}", d);
    }
    eprintln!("GEN-DONE what={} variant={} classes={} disagreements={}", what, variant, cls.len(), disagreements.len());
}
