//! C18, pool-task schedule: independent hashers driven from *inside tasks of one Rayon pool* (the
//! everyday way to hash a directory: one task per file, `update_mmap_rayon` / `update_rayon` in
//! each). The hashing entry points then run on pool workers, and a worker that waits for the other
//! half of a join executes whatever other task it finds - another, unrelated hasher. Every task
//! must still produce exactly the digest its file gives alone.
//!
//! Liveness is not judged by a wall-clock deadline. A *deadlock certificate* is computed from
//! /proc: every thread of the process other than the observer is blocked in futex(FUTEX_WAIT*)
//! with a NULL timeout, the same on several consecutive samples, while tasks are outstanding and the
//! completion counter stands still. No thread can then ever run again (nothing outside the process
//! knows these futexes), so the tasks can never yield their results: that is a violation. A run that
//! merely takes long ends at a generous watchdog as inconclusive.
use crate::run::Args;
use monlib::{hex, Json, Report, Rng};
use std::sync::atomic::{AtomicUsize, Ordering};
use std::sync::{mpsc, Arc, Mutex};
use std::time::{Duration, Instant};

fn gettid() -> u64 {
    unsafe { libc::syscall(libc::SYS_gettid) as u64 }
}

/// (threads seen, threads blocked in an untimed futex wait, description of the others)
fn futex_census(observer: u64) -> (usize, usize, Vec<String>) {
    let mut total = 0;
    let mut blocked = 0;
    let mut others = Vec::new();
    if let Ok(rd) = std::fs::read_dir("/proc/self/task") {
        for e in rd.flatten() {
            let tid: u64 = match e.file_name().to_string_lossy().parse() {
                Ok(t) => t,
                Err(_) => continue,
            };
            if tid == observer {
                continue;
            }
            total += 1;
            let sc = std::fs::read_to_string(format!("/proc/self/task/{}/syscall", tid)).unwrap_or_default();
            let f: Vec<&str> = sc.split_whitespace().collect();
            // "202 uaddr op val timeout uaddr2 val3 sp pc"
            let is_wait = f.len() >= 5 && f[0] == "202" && {
                let op = u64::from_str_radix(f[2].trim_start_matches("0x"), 16).unwrap_or(u64::MAX) & 0x7f;
                let timeout = u64::from_str_radix(f[4].trim_start_matches("0x"), 16).unwrap_or(1);
                (op == 0 || op == 9) && timeout == 0
            };
            if is_wait {
                blocked += 1;
            } else {
                others.push(format!("{}:{}", tid, f.first().copied().unwrap_or("?")));
            }
        }
    }
    (total, blocked, others)
}

pub fn run(args: &Args) -> Report {
    let mut rep = Report::new();
    let mut rng = Rng::new(args.seed, 0x18F0_0000 + args.get("proc").map(|v| v.parse::<u64>().unwrap()).unwrap_or(0));
    let dir = std::env::temp_dir().join(format!("verif-c18pool-{}", std::process::id()));
    let _ = std::fs::create_dir_all(&dir);
    let nfiles = if args.thorough { 40 } else { 24 };
    let rounds = if args.thorough { 24 } else { 8 };
    // files on both sides of every plausible size threshold: 20 KiB .. 9 MiB, most above 4 MiB
    let mut files: Vec<(std::path::PathBuf, [u8; 32])> = Vec::new();
    for i in 0..nfiles {
        let len = match i % 6 {
            0 => 20_000 + rng.usize_below(200_000),
            1 => (1 << 20) + rng.usize_below(3 << 20),
            _ => (4 << 20) + (256 << 10) + rng.usize_below(4 << 20),
        };
        let mut data = vec![0u8; len];
        // sparse-looking content with position-dependent markers
        let mut off = rng.usize_below(4096);
        while off + 64 < len {
            let n = 1 + rng.usize_below(63);
            rng.fill(&mut data[off..off + n]);
            off += 1 + rng.usize_below(1 << 17);
        }
        let p = dir.join(format!("f{}", i));
        std::fs::write(&p, &data).expect("scratch write");
        let want = crate::huge::model_root(&specmodel::Mode::Hash, &data).root_hash();
        files.push((p, want));
    }
    let files = Arc::new(files);
    // ---- many plain threads at once, each mapping a big file (more simultaneous mappings than any
    // per-process cap a library might impose: 72 threads released by one barrier, three waves) ----
    {
        let nthreads = 72usize;
        let big: Vec<usize> = (0..files.len()).filter(|i| i % 6 >= 1).collect();
        for wave in 0..3 {
            let barrier = Arc::new(std::sync::Barrier::new(nthreads));
            let handles: Vec<_> = (0..nthreads)
                .map(|t| {
                    let (files, barrier, big) = (files.clone(), barrier.clone(), big.clone());
                    std::thread::spawn(move || {
                        let i = big[(t + wave * 7) % big.len()];
                        let mut h = blake3::Hasher::new();
                        barrier.wait();
                        let r = if (t + wave) % 3 == 0 { h.update_mmap_rayon(&files[i].0).map(|_| ()) } else { h.update_mmap(&files[i].0).map(|_| ()) };
                        (i, r.map(|_| *h.finalize().as_bytes()).map_err(|e| format!("{:?}", e.kind())))
                    })
                })
                .collect();
            for (t, hd) in handles.into_iter().enumerate() {
                match hd.join() {
                    Ok((i, r)) => {
                        rep.eval(format!("threads72/wave{}/file{}", wave, i));
                        match r {
                            Ok(d) if d == files[i].1 => {}
                            other => rep.violation("C18/rust/many-mappings/mismatch", format!("{} threads each mapping one file of 1-9 MiB at the same time (wave {}): thread {} got {:?} for file {}, which alone hashes to {}", nthreads, wave, t, other.map(|d| hex(&d)), i, hex(&files[i].1)), vec!["c18".into(), "--pool-files".into(), "1".into()]),
                        }
                    }
                    Err(_) => rep.violation("C18/rust/many-mappings/panic", format!("thread {} panicked", t), vec!["c18".into(), "--pool-files".into(), "1".into()]),
                }
            }
        }
        rep.count("simultaneous_big_mmap_threads", nthreads as u64);
    }
    let observer = gettid();
    let deadline = Duration::from_secs(if args.thorough { 900 } else { 300 });
    'pools: for &threads in &[3usize, 6, 4] {
        let pool = match rayon_core::ThreadPoolBuilder::new().num_threads(threads).build() {
            Ok(p) => Arc::new(p),
            Err(e) => {
                rep.inconclusive.push(format!("cannot build a {}-thread pool: {}", threads, e));
                continue;
            }
        };
        let done = Arc::new(AtomicUsize::new(0));
        let (tx, rx) = mpsc::channel::<(usize, Vec<Option<[u8; 32]>>)>();
        {
            let (pool, files, done) = (pool.clone(), files.clone(), done.clone());
            std::thread::spawn(move || {
                for round in 0..rounds {
                    let results: Arc<Mutex<Vec<Option<[u8; 32]>>>> = Arc::new(Mutex::new(vec![None; files.len()]));
                    pool.scope(|s| {
                        for (i, (path, _)) in files.iter().enumerate() {
                            let (results, done) = (results.clone(), done.clone());
                            s.spawn(move |_| {
                                let mut h = blake3::Hasher::new();
                                let r = if (i + round) % 5 == 4 {
                                    // the in-memory multithreaded entry point from a task as well
                                    std::fs::read(path).map(|d| {
                                        h.update_rayon(&d);
                                    })
                                } else {
                                    h.update_mmap_rayon(path).map(|_| ())
                                };
                                if r.is_ok() {
                                    results.lock().unwrap()[i] = Some(*h.finalize().as_bytes());
                                }
                                done.fetch_add(1, Ordering::SeqCst);
                            });
                        }
                    });
                    let v = results.lock().unwrap().clone();
                    if tx.send((round, v)).is_err() {
                        return;
                    }
                }
            });
        }
        let started = Instant::now();
        let mut got_rounds = 0;
        let mut stable_samples = 0;
        let mut last_done = usize::MAX;
        while got_rounds < rounds {
            match rx.recv_timeout(Duration::from_millis(400)) {
                Ok((round, digests)) => {
                    got_rounds += 1;
                    stable_samples = 0;
                    for (i, d) in digests.iter().enumerate() {
                        rep.eval(format!("pool{}/file{}", threads, i));
                        match d {
                            Some(d) if *d == files[i].1 => {}
                            Some(d) => rep.violation("C18/rust/pool-tasks/mismatch", format!("round {} in a {}-thread pool: the task hashing file {} got {} but the file alone hashes to {}", round, threads, i, hex(d), hex(&files[i].1)), vec!["c18".into(), "--pool-files".into(), "1".into()]),
                            None => rep.violation("C18/rust/pool-tasks/error", format!("round {} in a {}-thread pool: the task hashing file {} returned an error", round, threads, i), vec!["c18".into(), "--pool-files".into(), "1".into()]),
                        }
                    }
                    rep.count("pool_rounds_completed", 1);
                }
                Err(mpsc::RecvTimeoutError::Timeout) => {
                    let d = done.load(Ordering::SeqCst);
                    let (total, blocked, others) = futex_census(observer);
                    if d == last_done && total > 0 && blocked == total {
                        stable_samples += 1;
                    } else {
                        stable_samples = 0;
                    }
                    last_done = d;
                    if stable_samples >= 5 {
                        rep.eval(format!("pool{}/deadlock-certificate", threads));
                        rep.violation(
                            "C18/rust/pool-tasks/deadlock",
                            format!(
                                "{}-thread pool, round {}: {} of {} file tasks finished, then on 5 consecutive samples every one of the {} other threads of the process was blocked in futex wait without a timeout while the completion counter stood still: independent hashers driven from tasks of one pool (update_mmap_rayon on files of 20 KiB..9 MiB) wait for each other and will never yield their digests",
                                threads, got_rounds, d % files.len(), files.len(), total
                            ),
                            vec!["c18".into(), "--pool-files".into(), "1".into()],
                        );
                        break 'pools; // the stuck threads die with the process
                    }
                    if started.elapsed() > deadline {
                        rep.inconclusive.push(format!("pool tasks: watchdog after {:?} without a deadlock certificate (threads not blocked: {:?})", deadline, others));
                        break 'pools;
                    }
                }
                Err(mpsc::RecvTimeoutError::Disconnected) => {
                    rep.inconclusive.push("pool tasks: driver thread ended early".into());
                    break;
                }
            }
        }
        rep.seen("pool_sizes", threads.to_string());
    }
    rep.count("pool_task_files", files.len() as u64);
    rep.sample(Json::obj(vec![("kind", Json::s("pool-file-tasks")), ("files", Json::u(files.len())), ("rounds", Json::u(rounds))]));
    let _ = std::fs::remove_dir_all(&dir);
    rep
}

pub const RULE: &str = "pool-task schedule: per round one task per file (20 KiB..9 MiB) in a 3/4/6-thread Rayon pool, each task its own Hasher through update_mmap_rayon / update_rayon; one evaluation = one task's digest compared with the model; liveness judged by a /proc futex census (deadlock certificate), never by a deadline";
