//! C14: Hash values convert losslessly and compare by content.
use crate::run::{self, Args};
use blake3::Hash;
use monlib::{guarded, hex, Json, Report, Rng};
use std::str::FromStr;

fn is_hex(b: u8) -> bool {
    b.is_ascii_digit() || (b'a'..=b'f').contains(&b) || (b'A'..=b'F').contains(&b)
}
fn hexval(b: u8) -> u8 {
    match b {
        b'0'..=b'9' => b - b'0',
        b'a'..=b'f' => b - b'a' + 10,
        _ => b - b'A' + 10,
    }
}

fn std_hash<T: std::hash::Hash>(t: &T) -> u64 {
    use std::hash::Hasher;
    let mut h = std::collections::hash_map::DefaultHasher::new();
    t.hash(&mut h);
    h.finish()
}

fn v(rep: &mut Report, class: &str, detail: String) {
    rep.violation(format!("C14/{}", class), detail, vec!["c14".into()]);
}

fn roundtrips(bytes: [u8; 32], rep: &mut Report, rng: &mut Rng) {
    let want_hex = hex(&bytes);
    let r = guarded(|| {
        let h = Hash::from_bytes(bytes);
        let h2: Hash = bytes.into();
        let back: [u8; 32] = h.into();
        let hx = h.to_hex();
        let disp = format!("{}", h);
        let dbg = format!("{:?}", h);
        let upper = want_hex.to_uppercase();
        let mixed: String = want_hex.chars().enumerate().map(|(i, c)| if (i * 7 + bytes[0] as usize) % 3 == 0 { c.to_ascii_uppercase() } else { c }).collect();
        let p1 = Hash::from_hex(&want_hex).map(|x| *x.as_bytes()).map_err(|e| e.to_string());
        let p2 = Hash::from_hex(upper.as_bytes()).map(|x| *x.as_bytes()).map_err(|e| e.to_string());
        let p3 = Hash::from_hex(mixed.clone()).map(|x| *x.as_bytes()).map_err(|e| e.to_string());
        let p4 = Hash::from_str(&want_hex).map(|x| *x.as_bytes()).map_err(|e| e.to_string());
        let p5 = want_hex.parse::<Hash>().map(|x| *x.as_bytes()).map_err(|e| e.to_string());
        let s1 = Hash::from_slice(&bytes).map(|x| *x.as_bytes()).map_err(|e| e.to_string());
        (*h.as_bytes(), *h2.as_bytes(), back, hx.to_string(), disp, dbg, [p1, p2, p3, p4, p5, s1], h.as_slice().to_vec())
    });
    rep.evaluations += 1;
    match r {
        Err(m) => v(rep, "conversion/panic", format!("conversion of {} panicked: {}", want_hex, m)),
        Ok((a, b, back, hx, disp, dbg, parsed, sl)) => {
            if a != bytes || b != bytes || back != bytes || sl != bytes {
                v(rep, "conversion/bytes", format!("from_bytes/From/Into/as_slice changed the bytes of {}", want_hex));
            }
            if hx != want_hex || disp != want_hex {
                v(rep, "to_hex", format!("to_hex/Display of {} gave {} / {}", want_hex, hx, disp));
            }
            // format specifications: whatever a width / fill / precision does, the 64 digits must
            // all be there (padding around them is tolerated, truncation is not)
            let h = Hash::from_bytes(bytes);
            for (spec, out) in [
                ("{:.16}", format!("{:.16}", h)),
                ("{:.0}", format!("{:.0}", h)),
                ("{:.63}", format!("{:.63}", h)),
                ("{:.64}", format!("{:.64}", h)),
                ("{:80.70}", format!("{:80.70}", h)),
                ("{:>72}", format!("{:>72}", h)),
                ("{:*^10.5}", format!("{:*^10.5}", h)),
                ("{:10}", format!("{:10}", h)),
            ] {
                if !out.contains(&want_hex) {
                    v(rep, "display/format-spec", format!("Display with {} printed {:?}, which does not contain the 64 hex digits of {}", spec, out, want_hex));
                }
            }
            if dbg != format!("Hash(\"{}\")", want_hex) {
                rep.seen("debug_forms", dbg.chars().take(12).collect::<String>());
            }
            for (i, p) in parsed.iter().enumerate() {
                if p != &Ok(bytes) {
                    v(rep, "from_hex/roundtrip", format!("parse path #{} of {} gave {:?}", i, want_hex, p.as_ref().map(|x| hex(x))));
                }
            }
        }
    }
    // equality: identical copy equal in all three impls; all 256 single-bit differences unequal
    let h = Hash::from_bytes(bytes);
    let same = Hash::from_bytes(bytes);
    let r = guarded(|| {
        let mut bad: Option<String> = None;
        if !(h == same) || h != same || !(h == bytes) || !(h == bytes[..]) {
            bad = Some("equal bytes compare unequal".into());
        }
        if std_hash(&h) != std_hash(&same) {
            bad = Some("equal values have different std::hash::Hash output".into());
        }
        for bit in 0..256 {
            let mut o = bytes;
            o[bit / 8] ^= 1 << (bit % 8);
            let oh = Hash::from_bytes(o);
            if h == oh || !(h != oh) || h == o || h == o[..] {
                bad = Some(format!("a difference in bit {} is not detected", bit));
                break;
            }
        }
        // differences that cancel under a lane-wise fold: the same bit(s) flipped in two, three or
        // four different 2/4/8/16-byte lanes; whole lanes swapped; and a far-away random value
        for bit in 0..256usize {
            for &lane in &[16usize, 32, 64, 128] {
                let mut o = bytes;
                for k in 0..(2 + (bit + lane) % 3) {
                    let b2 = (bit + k * lane) % 256;
                    o[b2 / 8] ^= 1 << (b2 % 8);
                }
                if o == bytes {
                    continue;
                }
                let oh = Hash::from_bytes(o);
                if h == oh || !(h != oh) || h == o || h == o[..] || oh == bytes || oh == bytes[..] {
                    bad = Some(format!("a difference in bit {} repeated in lanes {} bits apart is not detected ({} vs {})", bit, lane, hex(&bytes), hex(&o)));
                    break;
                }
            }
        }
        for &lane in &[4usize, 8, 16] {
            let mut o = bytes;
            for i in 0..lane {
                o.swap(i, 32 - lane + i);
            }
            let differs = o != bytes;
            let oh = Hash::from_bytes(o);
            if (h == oh) == differs || (h == o) == differs || (h == o[..]) == differs {
                bad = Some(format!("swapping the first and last {}-byte lanes: equality is {} but the bytes {}", lane, h == oh, if differs { "differ" } else { "are identical" }));
            }
        }
        {
            let mut o = bytes;
            for (i, x) in o.iter_mut().enumerate() {
                *x = x.wrapping_mul(167).wrapping_add(i as u8 ^ bytes[(i * 7) % 32]);
            }
            let differs = o != bytes;
            let oh = Hash::from_bytes(o);
            if (h == oh) == differs || (h == o) == differs || (h == o[..]) == differs {
                bad = Some("a value differing in many bytes compares equal".into());
            }
        }
        // slices that start at the Hash's own storage but have another length (prefixes of
        // as_bytes(); a longer view of a record that begins with the hash): identity of the start
        // address says nothing about equality
        {
            #[repr(C)]
            struct Record {
                digest: Hash,
                rest: [u8; 16],
            }
            let rec = Record { digest: h, rest: [bytes[0]; 16] };
            let whole: &[u8] = unsafe { core::slice::from_raw_parts(&rec as *const Record as *const u8, 48) };
            if rec.digest == *whole || rec.digest == whole[..33] {
                bad = Some("equal to a longer slice that starts at the hash's own address".into());
            }
            if !(rec.digest == whole[..32]) {
                bad = Some("not equal to the 32-byte slice over its own storage".into());
            }
            for len in [0usize, 1, 16, 31] {
                if h == h.as_bytes()[..len] || h == h.as_slice()[..len] {
                    bad = Some(format!("equal to the {}-byte prefix of its own storage", len));
                }
            }
        }
        // slices of other lengths are never equal
        for len in [0usize, 1, 31, 33, 64] {
            let mut s = vec![0u8; len];
            for (i, x) in s.iter_mut().enumerate() {
                *x = bytes[i % 32];
            }
            if h == s[..] {
                bad = Some(format!("equal to a slice of length {}", len));
            }
        }
        bad
    });
    rep.evaluations += 256 + 5 + 1024 + 4;
    match r {
        Ok(None) => {}
        Ok(Some(b)) => v(rep, "equality", format!("{}: {}", want_hex, b)),
        Err(m) => v(rep, "equality/panic", format!("{}: {}", want_hex, m)),
    }
    let _ = rng;
}

#[cfg(feature = "full")]
fn cbor_array(bytes: &[u8]) -> Vec<u8> {
    let mut o = vec![0x98, bytes.len() as u8];
    for &b in bytes {
        if b < 24 {
            o.push(b);
        } else {
            o.push(0x18);
            o.push(b);
        }
    }
    o
}
#[cfg(feature = "full")]
fn cbor_bytes(bytes: &[u8]) -> Vec<u8> {
    let mut o = vec![0x58, bytes.len() as u8];
    o.extend_from_slice(bytes);
    o
}

#[cfg(feature = "full")]
fn serde_case(bytes: [u8; 32], rep: &mut Report) {
    let h = Hash::from_bytes(bytes);
    let r = guarded(|| -> Result<(), String> {
        let json = serde_json::to_string(&h).map_err(|e| e.to_string())?;
        let want_json = format!("[{}]", bytes.iter().map(|b| b.to_string()).collect::<Vec<_>>().join(","));
        if json != want_json {
            return Err(format!("JSON form is {} (expected the sequence form {})", json, want_json));
        }
        let back: Hash = serde_json::from_str(&json).map_err(|e| e.to_string())?;
        if back.as_bytes() != &bytes {
            return Err("JSON round trip changed the bytes".into());
        }
        let mut cbor = Vec::new();
        ciborium::into_writer(&h, &mut cbor).map_err(|e| e.to_string())?;
        if cbor != cbor_array(&bytes) {
            return Err(format!("CBOR form is {} (expected the array form)", hex(&cbor)));
        }
        let back: Hash = ciborium::from_reader(&cbor[..]).map_err(|e| e.to_string())?;
        if back.as_bytes() != &bytes {
            return Err("CBOR round trip changed the bytes".into());
        }
        let legacy: Hash = ciborium::from_reader(&cbor_bytes(&bytes)[..]).map_err(|e| format!("legacy byte-string form rejected: {}", e))?;
        if legacy.as_bytes() != &bytes {
            return Err("legacy byte-string form decoded to different bytes".into());
        }
        // a non-self-describing binary format (sequences carry a length prefix, tuples and arrays
        // do not): Serialize and Deserialize must agree on which of the two a Hash is
        let bin = crate::binfmt::to_bytes(&h).map_err(|e| format!("binary format: serialize failed: {}", e))?;
        let (back, used): (Hash, usize) = crate::binfmt::from_bytes(&bin).map_err(|e| format!("binary (non-self-describing) format: {} bytes written by Serialize are rejected by Deserialize: {}", bin.len(), e))?;
        if back.as_bytes() != &bytes || used != bin.len() {
            return Err(format!("binary (non-self-describing) format round trip: wrote {} bytes, read back {} of them as {}", bin.len(), used, hex(back.as_bytes())));
        }
        let marker = 0xA5C3_0F19u32 ^ bytes[3] as u32;
        let bin = crate::binfmt::to_bytes(&(h, marker, h)).map_err(|e| format!("binary format: serialize failed: {}", e))?;
        let ((b1, mk, b2), used): ((Hash, u32, Hash), usize) = crate::binfmt::from_bytes(&bin).map_err(|e| format!("binary (non-self-describing) format: a (Hash, u32, Hash) tuple does not read back: {}", e))?;
        if b1.as_bytes() != &bytes || b2.as_bytes() != &bytes || mk != marker || used != bin.len() {
            return Err("binary (non-self-describing) format: a Hash embedded in a tuple shifts its neighbours".into());
        }
        // Wrong-length sequences are NOT asserted: the statement only requires the conversions to
        // be lossless (and from_slice to reject other lengths); what a format library does with a
        // 33-element array is its own business (ciborium ignores the extra element). Observed
        // behaviour is recorded as information only.
        Ok(())
    });
    if bytes[0] == 0 {
        for len in [31usize, 33] {
            let sv: Vec<u8> = (0..len).map(|i| bytes[i % 32]).collect();
            let j = format!("[{}]", sv.iter().map(|b| b.to_string()).collect::<Vec<_>>().join(","));
            rep.seen("serde_wrong_length_behaviour_not_asserted", format!("json{}:{}", len, if serde_json::from_str::<Hash>(&j).is_ok() { "accepted" } else { "rejected" }));
            rep.seen("serde_wrong_length_behaviour_not_asserted", format!("cbor-array{}:{}", len, if ciborium::from_reader::<Hash, _>(&cbor_array(&sv)[..]).is_ok() { "accepted" } else { "rejected" }));
            rep.seen("serde_wrong_length_behaviour_not_asserted", format!("cbor-bytes{}:{}", len, if ciborium::from_reader::<Hash, _>(&cbor_bytes(&sv)[..]).is_ok() { "accepted" } else { "rejected" }));
        }
    }
    rep.evaluations += 1;
    match r {
        Ok(Ok(())) => {}
        Ok(Err(e)) => v(rep, "serde", format!("{}: {}", hex(&bytes), e)),
        Err(m) => v(rep, "serde/panic", format!("{}: {}", hex(&bytes), m)),
    }
}

pub fn run(args: &Args) -> Report {
    let n_random = args.n(60_000, 20_000_000);
    // (1) every byte value at every position + random hashes
    let rep1 = run::run_cases(args, 14, 32 * 256 + n_random, |idx, rng, rep| {
        let bytes = if idx < 32 * 256 {
            let mut b = rng.array32();
            b[(idx / 256) as usize] = (idx % 256) as u8;
            b
        } else {
            match rng.below(20) {
                0 => [0u8; 32],
                1 => [0xFF; 32],
                _ => rng.array32(),
            }
        };
        roundtrips(bytes, rep, rng);
        #[cfg(feature = "full")]
        if idx % 4 == 0 {
            serde_case(bytes, rep);
        }
        if idx < 32 * 256 {
            rep.distinct.insert(format!("pos{}val{}", idx / 256, idx % 256));
        } else if idx % 64 == 0 {
            rep.distinct.insert(format!("r{}", hex(&bytes[..6])));
        }
        if idx % 20011 == 0 {
            rep.sample(Json::obj(vec![("kind", Json::s("hash-value")), ("bytes", Json::s(hex(&bytes)))]));
        }
    });
    let mut rep = rep1;
    if args.only.is_some() {
        return rep;
    }
    // (2) from_hex: every byte value at every position of an otherwise valid string (exhaustive)
    let mut rng = Rng::new(args.seed, 0x14);
    let base = hex(&rng.array32()).into_bytes();
    for pos in 0..64 {
        for val in 0..=255u8 {
            let mut s = base.clone();
            s[pos] = val;
            let r = guarded(|| Hash::from_hex(&s).map(|h| *h.as_bytes()).map_err(|e| e.to_string()));
            rep.evaluations += 1;
            let valid = is_hex(val);
            match r {
                Err(m) => v(&mut rep, "from_hex/panic", format!("byte {:#x} at position {} panicked: {}", val, pos, m)),
                Ok(Ok(got)) => {
                    if !valid {
                        v(&mut rep, "from_hex/invalid-accepted", format!("byte {:#x} at position {} was accepted", val, pos));
                    } else {
                        let mut want = [0u8; 32];
                        for i in 0..32 {
                            want[i] = 16 * hexval(s[2 * i]) + hexval(s[2 * i + 1]);
                        }
                        if got != want {
                            v(&mut rep, "from_hex/value", format!("{:?} decoded to {}", String::from_utf8_lossy(&s), hex(&got)));
                        }
                    }
                }
                Ok(Err(_)) => {
                    if valid {
                        v(&mut rep, "from_hex/valid-rejected", format!("hex digit {:?} at position {} was rejected", val as char, pos));
                    }
                }
            }
            // str path for ASCII values
            if val < 128 {
                let st = String::from_utf8(s.clone()).unwrap();
                match guarded(|| (Hash::from_str(&st).is_ok(), Hash::from_hex(st.clone()).is_ok(), st.parse::<Hash>().is_ok())) {
                    Ok((a, b, c)) => {
                        if a != valid || b != valid || c != valid {
                            v(&mut rep, "from_str/accepts", format!("{:?}: FromStr/from_hex(String)/parse accepted={},{},{} expected {}", st, a, b, c, valid));
                        }
                    }
                    Err(m) => v(&mut rep, "from_str/panic", format!("{:?} panicked: {}", st, m)),
                }
            }
        }
        rep.distinct.insert(format!("hexpos{}", pos));
    }
    // (3) every length 0..=130 (valid digits): only 64 is accepted; multi-byte UTF-8 strings never panic
    for len in 0..=130usize {
        let s: String = (0..len).map(|i| b"0123456789abcdefABCDEF"[(i * 5 + len) % 22] as char).collect();
        rep.evaluations += 1;
        match guarded(|| (Hash::from_hex(&s).is_ok(), Hash::from_hex(s.as_bytes()).is_ok(), Hash::from_str(&s).is_ok())) {
            Ok((a, b, c)) => {
                let want = len == 64;
                if a != want || b != want || c != want {
                    v(&mut rep, "from_hex/length", format!("a {}-character hex string: accepted={},{},{}", len, a, b, c));
                }
            }
            Err(m) => v(&mut rep, "from_hex/panic", format!("length {} panicked: {}", len, m)),
        }
    }
    for s in ["é".repeat(32), "否".repeat(21) + "a", "😀".repeat(16), format!("{}é", "a".repeat(62)), format!("{}\u{FFFD}", "0".repeat(61))] {
        rep.evaluations += 1;
        match guarded(|| Hash::from_hex(&s).is_ok() || Hash::from_str(&s).is_ok()) {
            Ok(false) => {}
            Ok(true) => v(&mut rep, "from_hex/non-ascii-accepted", format!("{:?} ({} bytes) was accepted", s, s.len())),
            Err(m) => v(&mut rep, "from_hex/panic", format!("{:?} panicked: {}", s, m)),
        }
    }
    // (4) from_slice on every length 0..=100
    for len in 0..=100usize {
        let s = rng.bytes(len);
        rep.evaluations += 1;
        match guarded(|| Hash::from_slice(&s).map(|h| *h.as_bytes()).ok()) {
            Ok(Some(b)) if len == 32 && b[..] == s[..] => {}
            Ok(None) if len != 32 => {}
            Ok(o) => v(&mut rep, "from_slice", format!("from_slice of {} bytes gave {:?}", len, o.map(|b| hex(&b)))),
            Err(m) => v(&mut rep, "from_slice/panic", format!("length {} panicked: {}", len, m)),
        }
        rep.distinct.insert(format!("slicelen{}", len));
    }
    rep
}

pub const RULE: &str = "decomposed coverage of the value space: every byte value at every position (32x256) + seeded random hashes through to_hex/Display/from_hex (lower, upper, mixed)/FromStr/from_bytes/From/Into/from_slice/as_slice, equality in all three PartialEq impls against the identical copy and all 256 single-bit neighbours and wrong-length slices, std Hash consistency, cancelling multi-lane differences, serde JSON + CBOR (sequence form, legacy byte string) + a length-prefixed non-self-describing binary format; exhaustive: every byte value at every position of a valid hex string, all hex lengths 0..=130, all slice lengths 0..=100; distinct = distinct (position,value) pairs / lengths / sampled values";
