/* Scripted implementation of the BLAKE3_USE_TBB link seam.
 *
 * c/blake3.c (compiled with -DBLAKE3_USE_TBB) calls blake3_compress_subtree_wide_join_tbb() at
 * every recursive split. Upstream implements it in c/blake3_tbb.cpp with
 * oneapi::tbb::parallel_invoke, which cannot be compiled here (oneTBB is not installed). This
 * file honours the same contract - use_tbb == false: run the two halves serially on the calling
 * thread; use_tbb == true: the halves may run in any order or concurrently - and lets the harness
 * choose, per split, one of {left first, right first, two real threads}, with optional injected
 * delays before either half starts. The choice is a deterministic function of (seam_seed,
 * chunk counter, length) so that a history is replayable.
 */
#define _GNU_SOURCE
#include <pthread.h>
#include <stdatomic.h>
#include <stdbool.h>
#include <stdint.h>
#include <stdio.h>
#include <time.h>
#include <unistd.h>

#include "blake3_impl.h"

uint64_t seam_seed;                 /* set by the driver before every update_tbb call */
int seam_forced_order = -1;         /* -1: scripted; 0/1/2 force an order */
_Atomic uint64_t seam_calls, seam_serial_calls, seam_left_first, seam_right_first, seam_threads, seam_overlaps, seam_delays;

typedef struct {
  const uint32_t *key;
  uint8_t flags;
  bool use_tbb;
  const uint8_t *input;
  size_t input_len;
  uint64_t chunk_counter;
  uint8_t *cvs;
  size_t *n;
  unsigned delay_us;
  struct timespec begin, end;
} half_t;

static void run_half(half_t *h) {
  if (h->delay_us) { usleep(h->delay_us); atomic_fetch_add(&seam_delays, 1); }
  clock_gettime(CLOCK_MONOTONIC, &h->begin);
  *h->n = blake3_compress_subtree_wide(h->input, h->input_len, h->key, h->chunk_counter, h->flags, h->cvs, h->use_tbb);
  clock_gettime(CLOCK_MONOTONIC, &h->end);
}
static void *thread_main(void *p) { run_half((half_t *)p); return NULL; }

/* ---- a small helping thread pool ---- */
#include <sched.h>
typedef struct task { half_t *half; _Atomic int done; struct task *next; } task_t;
_Atomic uint64_t seam_pool_joins, seam_pool_helped;
int seam_pool_threads = 4;
static pthread_mutex_t pool_lock = PTHREAD_MUTEX_INITIALIZER;
static task_t *pool_head;
static int pool_started;
static void pool_push(task_t *t) { pthread_mutex_lock(&pool_lock); t->next = pool_head; pool_head = t; pthread_mutex_unlock(&pool_lock); }
static task_t *pool_try_pop(void) {
  pthread_mutex_lock(&pool_lock);
  task_t *t = pool_head;
  if (t) pool_head = t->next;
  pthread_mutex_unlock(&pool_lock);
  return t;
}
static void *pool_worker(void *arg) {
  (void)arg;
  for (;;) {
    task_t *t = pool_try_pop();
    if (t) { run_half(t->half); atomic_store(&t->done, 1); }
    else usleep(50);
  }
  return NULL;
}
static void pool_start(void) {
  pthread_mutex_lock(&pool_lock);
  if (!pool_started) {
    pool_started = 1;
    for (int i = 0; i < seam_pool_threads; i++) { pthread_t t; if (pthread_create(&t, NULL, pool_worker, NULL) == 0) pthread_detach(t); }
  }
  pthread_mutex_unlock(&pool_lock);
}

static uint64_t mix(uint64_t x) {
  x ^= x >> 33; x *= 0xff51afd7ed558ccdULL; x ^= x >> 33; x *= 0xc4ceb9fe1a85ec53ULL; x ^= x >> 33;
  return x;
}
static int64_t ns(const struct timespec *t) { return (int64_t)t->tv_sec * 1000000000LL + t->tv_nsec; }

void blake3_compress_subtree_wide_join_tbb(
    const uint32_t key[8], uint8_t flags, bool use_tbb,
    const uint8_t *l_input, size_t l_input_len, uint64_t l_chunk_counter, uint8_t *l_cvs, size_t *l_n,
    const uint8_t *r_input, size_t r_input_len, uint64_t r_chunk_counter, uint8_t *r_cvs, size_t *r_n) {
  atomic_fetch_add(&seam_calls, 1);
  half_t L = {key, flags, use_tbb, l_input, l_input_len, l_chunk_counter, l_cvs, l_n, 0, {0, 0}, {0, 0}};
  half_t R = {key, flags, use_tbb, r_input, r_input_len, r_chunk_counter, r_cvs, r_n, 0, {0, 0}, {0, 0}};
  if (!use_tbb) {
    atomic_fetch_add(&seam_serial_calls, 1);
    run_half(&L);
    run_half(&R);
    return;
  }
  uint64_t r = mix(seam_seed ^ mix(l_chunk_counter * 0x9E3779B97F4A7C15ULL + l_input_len + r_input_len));
  int order = seam_forced_order >= 0 ? seam_forced_order : (int)(r % 4);
  if (((r >> 8) & 15) == 0) L.delay_us = (unsigned)((r >> 16) % 200);
  if (((r >> 12) & 15) == 0) R.delay_us = (unsigned)((r >> 24) % 200);
  if (order == 0) {
    atomic_fetch_add(&seam_left_first, 1);
    run_half(&L);
    run_half(&R);
  } else if (order == 1) {
    atomic_fetch_add(&seam_right_first, 1);
    run_half(&R);
    run_half(&L);
  } else if (order == 3) {
    /* work-stealing style pool: the right half is queued, the left half runs inline, and a
     * joiner that has to wait helps by running whatever task is queued - so one thread can run
     * an unrelated task while one of its own frames is suspended in this join. */
    pool_start();
    atomic_fetch_add(&seam_pool_joins, 1);
    task_t task = {&R, 0, NULL};
    pool_push(&task);
    run_half(&L);
    while (!atomic_load(&task.done)) {
      task_t *other = pool_try_pop();
      if (other) { run_half(other->half); atomic_store(&other->done, 1); atomic_fetch_add(&seam_pool_helped, 1); }
      else sched_yield();
    }
    if (ns(&L.begin) < ns(&R.end) && ns(&R.begin) < ns(&L.end)) atomic_fetch_add(&seam_overlaps, 1);
  } else {
    pthread_t t;
    if (pthread_create(&t, NULL, thread_main, &R) != 0) {
      /* cannot spawn: fall back to serial right-first (still a legal schedule) */
      atomic_fetch_add(&seam_right_first, 1);
      run_half(&R);
      run_half(&L);
      return;
    }
    atomic_fetch_add(&seam_threads, 1);
    run_half(&L);
    pthread_join(t, NULL);
    if (ns(&L.begin) < ns(&R.end) && ns(&R.begin) < ns(&L.end)) atomic_fetch_add(&seam_overlaps, 1);
  }
}
