/* Included by cdrv.c. Size-class probes of the C API: one call that moves more than 2^32 bytes.
 *
 *   cdrv --big update   <len>    <dseed> <hex32 expected hash>
 *   cdrv --big finalize <outlen> <dseed> <seek> <hex64 expected S[seek+outlen-64 .. seek+outlen]>
 *
 * The input pattern is the one of mon's huge.rs (word i = mix(i*K + dseed)), so the expected
 * values come from the specification model. In addition each probe is compared with the same
 * bytes moved in pieces below 2^31 (piecewise calls are what the ordinary records validate). */
static void big_fill(uint8_t *buf, size_t n, uint64_t seed) {
  size_t words = n / 8;
  for (size_t i = 0; i < words; i++) {
    uint64_t x = (uint64_t)i * 0x9E3779B97F4A7C15ull + seed;
    x ^= x >> 29;
    memcpy(buf + 8 * i, &x, 8);
  }
  for (size_t k = 0; k < n % 8; k++) buf[8 * words + k] = (uint8_t)(((uint8_t)seed + (uint8_t)k) * 31u);
}

static int hexval(int c) { return c >= '0' && c <= '9' ? c - '0' : c >= 'a' && c <= 'f' ? c - 'a' + 10 : -1; }
static void unhex(const char *s, uint8_t *out, size_t n) {
  if (strlen(s) != 2 * n) { fprintf(stderr, "big: expected %zu hex digits\n", 2 * n); exit(3); }
  for (size_t i = 0; i < n; i++) {
    int a = hexval(s[2 * i]), b = hexval(s[2 * i + 1]);
    if (a < 0 || b < 0) { fprintf(stderr, "big: bad hex\n"); exit(3); }
    out[i] = (uint8_t)(a * 16 + b);
  }
}

static int big_main(int argc, char **argv) {
  if (argc < 6) { fprintf(stderr, "usage: cdrv --big update|finalize ...\n"); return 3; }
  const char *what = argv[2];
  size_t len = (size_t)strtoull(argv[3], NULL, 10);
  uint64_t dseed = strtoull(argv[4], NULL, 10);
  install_handlers();
  alarm(1500);
  uint64_t evals = 0;
  if (strcmp(what, "update") == 0) {
    uint8_t want[32], got[32], got2[32];
    unhex(argv[5], want, 32);
    uint8_t *buf = malloc(len ? len : 1);
    if (!buf) { printf("T idx=0 big update: cannot allocate %zu bytes (inconclusive)\n", len); return 0; }
    big_fill(buf, len, dseed);
    blake3_hasher h;
    if (sigsetjmp(fault_jmp, 1) != 0) {
      if (watchdog_fired()) { printf("DONE records=0 kernel_calls=0 api_ops=0 violations=0 faults=0\n"); return 0; }
      violation("C07/api/huge-update/fatal-signal", "signal %d at %#llx during one blake3_hasher_update of %zu bytes", fault_sig, (unsigned long long)fault_addr, len);
      goto out_update;
    }
    blake3_hasher_init(&h);
    in_monitored_call = 1;
    blake3_hasher_update(&h, buf, len);
    in_monitored_call = 0;
    blake3_hasher_finalize(&h, got, 32);
    evals++;
    if (memcmp(got, want, 32) != 0) violation("C06/huge/update/mismatch", "one blake3_hasher_update of %zu bytes: digest %02x%02x%02x%02x.. differs from the specification %02x%02x%02x%02x..", len, got[0], got[1], got[2], got[3], want[0], want[1], want[2], want[3]);
    /* the same bytes in pieces just below 2^30 */
    blake3_hasher_init(&h);
    size_t piece = ((size_t)1 << 30) - 7;
    in_monitored_call = 1;
    for (size_t off = 0; off < len; off += piece) blake3_hasher_update(&h, buf + off, len - off < piece ? len - off : piece);
    in_monitored_call = 0;
    blake3_hasher_finalize(&h, got2, 32);
    evals++;
    if (memcmp(got2, want, 32) != 0) violation("C06/huge/update-pieces/mismatch", "%zu bytes in pieces of %zu: digest differs from the specification", len, piece);
#if defined(BLAKE3_USE_TBB)
    blake3_hasher_init(&h);
    in_monitored_call = 1;
    blake3_hasher_update_tbb(&h, buf, len);
    in_monitored_call = 0;
    blake3_hasher_finalize(&h, got2, 32);
    evals++;
    if (memcmp(got2, want, 32) != 0) violation("C08/c/huge/update_tbb/mismatch", "one blake3_hasher_update_tbb of %zu bytes: digest differs from the specification", len);
#endif
  out_update:
    free(buf);
    printf("AC big_update_bytes %llu\n", (unsigned long long)len);
  } else if (strcmp(what, "finalize") == 0) {
    if (argc < 7) { fprintf(stderr, "big finalize: missing arguments\n"); return 3; }
    uint64_t seek = strtoull(argv[5], NULL, 10);
    uint8_t want_tail[64];
    unhex(argv[6], want_tail, 64);
    uint8_t in[3000];
    big_fill(in, sizeof in, dseed);
    blake3_hasher h;
    blake3_hasher_init(&h);
    blake3_hasher_update(&h, in, sizeof in);
    size_t pad = 4096;
    uint8_t *raw = malloc(len + 2 * pad);
    size_t piece = ((size_t)16 << 20) + 64 * 3 + 5;
    uint8_t *pbuf = malloc(piece);
    if (!raw || !pbuf) { printf("T idx=0 big finalize: cannot allocate %zu bytes (inconclusive)\n", len); return 0; }
    memset(raw, 0xC5, pad);
    memset(raw + pad + len, 0xC5, pad);
    uint8_t *out = raw + pad;
    if (sigsetjmp(fault_jmp, 1) != 0) {
      if (watchdog_fired()) { printf("DONE records=0 kernel_calls=0 api_ops=0 violations=0 faults=0\n"); return 0; }
      violation("C07/api/huge-finalize/fatal-signal", "signal %d at %#llx during one blake3_hasher_finalize_seek of %zu bytes", fault_sig, (unsigned long long)fault_addr, len);
      goto out_fin;
    }
    in_monitored_call = 1;
    if (seek == 0) blake3_hasher_finalize(&h, out, len); else blake3_hasher_finalize_seek(&h, seek, out, len);
    in_monitored_call = 0;
    evals++;
    if (len >= 64 && memcmp(out + len - 64, want_tail, 64) != 0) {
      size_t first = 0;
      while (first < 64 && out[len - 64 + first] == want_tail[first]) first++;
      violation("C06/huge/finalize/mismatch", "one finalize call (seek=%llu, out_len=%zu): the last 64 bytes differ from the specification first at output offset %zu", (unsigned long long)seek, len, len - 64 + first);
    }
    for (size_t i = 0; i < pad; i++) if (raw[i] != 0xC5 || raw[pad + len + i] != 0xC5) { violation("C07/api/finalize/canary", "finalize(out_len=%zu) wrote outside its output buffer", len); break; }
    /* piecewise comparison of the whole output */
    for (size_t off = 0; off < len; off += piece) {
      size_t n = len - off < piece ? len - off : piece;
      blake3_hasher_finalize_seek(&h, seek + off, pbuf, n);
      evals++;
      if (memcmp(pbuf, out + off, n) != 0) {
        size_t first = 0;
        while (first < n && pbuf[first] == out[off + first]) first++;
        violation("C06/huge/finalize/mismatch", "one finalize call (seek=%llu, out_len=%zu) differs from the same range produced in %zu-byte pieces, first at output offset %zu", (unsigned long long)seek, len, piece, off + first);
        break;
      }
    }
  out_fin:
    free(raw);
    free(pbuf);
    printf("AC big_finalize_bytes %llu\n", (unsigned long long)len);
  } else {
    fprintf(stderr, "big: unknown probe %s\n", what);
    return 3;
  }
  alarm(0);
  printf("DISTINCT 1\nDONE records=%llu kernel_calls=0 api_ops=%llu violations=%llu faults=%llu\n", (unsigned long long)evals, (unsigned long long)evals, (unsigned long long)n_viol, (unsigned long long)n_faults);
  fflush(stdout);
  return 0;
}
