/* cmt: multi-threaded executor of blake3_hasher API histories (C18, C side).
 *
 * Reads the same op-script as cdrv (H records only) and partitions the histories over T threads
 * (history index mod T). All threads are released by one barrier in a fresh process with
 * g_cpu_features still UNDEFINED, so the first calls race on CPU feature detection; the feature
 * mask fields of the script are ignored (natural detection). Every finalize output is compared
 * with the expected bytes from specmodel.
 *
 * Shared-state monitor: the library is linked as libblake3.so; dl_iterate_phdr gives its writable
 * PT_LOAD segments, which are snapshotted before the threads start and after they have joined.
 * Every changed byte must lie inside g_cpu_features (the idempotent detection cache).
 */
#define _GNU_SOURCE
#include <link.h>
#include <pthread.h>
#include <stdbool.h>
#include <stdint.h>
#include <stdio.h>
#include <stdlib.h>
#include <string.h>
#include <unistd.h>

#include "blake3.h"

#include <dlfcn.h>
/* Looked up with dlsym at run time: a direct reference from the executable would create a copy
 * relocation and move the variable out of the library's own writable segment. */
static volatile int *g_features_ptr;
static int dummy_features = 0x40000000;

typedef struct { uint64_t s[4]; } rng_t;
static uint64_t splitmix(uint64_t *x) { *x += 0x9E3779B97F4A7C15ULL; uint64_t z = *x; z = (z ^ (z >> 30)) * 0xBF58476D1CE4E5B9ULL; z = (z ^ (z >> 27)) * 0x94D049BB133111EBULL; return z ^ (z >> 31); }
static void rng_init(rng_t *r, uint64_t seed, uint64_t stream) { uint64_t x = seed ^ (stream * 0xD1342543DE82EF95ULL) ^ 0x5851F42D4C957F2DULL; for (int i = 0; i < 4; i++) r->s[i] = splitmix(&x); }
static inline uint64_t rotl(uint64_t x, int k) { return (x << k) | (x >> (64 - k)); }
static uint64_t rng_u64(rng_t *r) { uint64_t res = rotl(r->s[1] * 5, 7) * 9; uint64_t t = r->s[1] << 17; r->s[2] ^= r->s[0]; r->s[3] ^= r->s[1]; r->s[1] ^= r->s[2]; r->s[0] ^= r->s[3]; r->s[2] ^= t; r->s[3] = rotl(r->s[3], 45); return res; }
static void rng_fill(rng_t *r, uint8_t *buf, size_t n) { size_t i = 0; while (i + 8 <= n) { uint64_t w = rng_u64(r); memcpy(buf + i, &w, 8); i += 8; } if (i < n) { uint64_t w = rng_u64(r); memcpy(buf + i, &w, n - i); } }
static void fill_content(uint8_t *buf, size_t n, uint64_t seed, int klass) {
  if (klass == 1) memset(buf, 0, n); else if (klass == 2) memset(buf, 0xFF, n);
  else if (klass == 3) { for (size_t i = 0; i < n; i++) buf[i] = (uint8_t)(i % 251); }
  else { rng_t r; rng_init(&r, seed, 0); rng_fill(&r, buf, n); }
}

typedef struct {
  uint32_t idx; uint8_t slot, op, klass; uint64_t seek; uint32_t len; uint64_t dseed; uint32_t explen; const uint8_t *expect;
} rec_t;
static rec_t *recs; static size_t nrecs;
static uint8_t *script; static size_t script_len;

static int T = 8;
static int ROUNDS = 1, cur_round = 0;
static uint64_t stagger_seed = 1;
static pthread_barrier_t barrier;
static pthread_mutex_t out_lock = PTHREAD_MUTEX_INITIALIZER;
static uint64_t n_viol, n_ops;

static void parse(void) {
  size_t cap = 1 << 20; script = malloc(cap);
  for (;;) { if (script_len == cap) { cap *= 2; script = realloc(script, cap); } ssize_t k = read(0, script + script_len, cap - script_len); if (k <= 0) break; script_len += (size_t)k; }
  if (script_len < 12 || memcmp(script, "B3CS", 4)) { fprintf(stderr, "bad script\n"); exit(3); }
  size_t pos = 12; size_t rcap = 1 << 16; recs = malloc(rcap * sizeof *recs);
  while (pos < script_len) {
    if (script[pos] != 'H') { fprintf(stderr, "cmt: only H records are supported\n"); exit(3); }
    rec_t r; pos++;
    memcpy(&r.idx, script + pos, 4); pos += 4;
    r.slot = script[pos++]; r.op = script[pos++]; pos += 3; /* placements */ r.klass = script[pos++];
    memcpy(&r.seek, script + pos, 8); pos += 8; memcpy(&r.len, script + pos, 4); pos += 4; memcpy(&r.dseed, script + pos, 8); pos += 8;
    memcpy(&r.explen, script + pos, 4); pos += 4; r.expect = script + pos; pos += r.explen; pos += 4; /* mask */
    if (nrecs == rcap) { rcap *= 2; recs = realloc(recs, rcap * sizeof *recs); }
    recs[nrecs++] = r;
  }
}

static void do_init(blake3_hasher *h, int op, uint64_t seed, uint32_t len) {
  uint8_t *tmp = malloc((size_t)len + 33); rng_t r; rng_init(&r, seed, 0);
  if (op == 0) blake3_hasher_init(h);
  else if (op == 1) { rng_fill(&r, tmp, 32); blake3_hasher_init_keyed(h, tmp); }
  else { rng_fill(&r, tmp, len); if (op == 2) for (uint32_t i = 0; i < len; i++) if (tmp[i] == 0) tmp[i] = 0x2a; tmp[len] = 0;
         if (op == 2) blake3_hasher_init_derive_key(h, (const char *)tmp); else blake3_hasher_init_derive_key_raw(h, tmp, len); }
  free(tmp);
}

static void *worker(void *arg) {
  int t = (int)(intptr_t)arg;
  blake3_hasher slots[8]; bool live[8] = {0};
  uint64_t my_ops = 0, my_viol = 0;
  pthread_barrier_wait(&barrier);
  {
    /* staggered first calls: thread t starts 0..3 us after the barrier releases */
    rng_t sr; rng_init(&sr, stagger_seed, (uint64_t)t + 1000u * (uint64_t)cur_round);
    uint64_t ns = rng_u64(&sr) % 3000;
    struct timespec a, b; clock_gettime(CLOCK_MONOTONIC, &a);
    do { clock_gettime(CLOCK_MONOTONIC, &b); } while ((uint64_t)((b.tv_sec - a.tv_sec) * 1000000000LL + (b.tv_nsec - a.tv_nsec)) < ns);
  }
  for (size_t i = 0; i < nrecs; i++) {
    const rec_t *r = &recs[i];
    if ((int)(r->idx % (uint32_t)ROUNDS) != cur_round) continue;
    if ((int)((r->idx / (uint32_t)ROUNDS) % (uint32_t)T) != t) continue;
    blake3_hasher *h = &slots[r->slot & 7];
    my_ops++;
    switch (r->op) {
    case 0: case 1: case 2: case 3: do_init(h, r->op, r->dseed, r->len); live[r->slot & 7] = true; break;
    case 4: case 8: { uint8_t *d = malloc(r->len ? r->len : 1); fill_content(d, r->len, r->dseed, r->klass); blake3_hasher_update(h, r->len ? d : NULL, r->len); free(d); break; }
    case 5: case 6: {
      uint8_t *o = malloc(r->len ? r->len : 1);
      if (r->op == 5) blake3_hasher_finalize(h, o, r->len); else blake3_hasher_finalize_seek(h, r->seek, o, r->len);
      if (r->len && memcmp(o, r->expect, r->len) != 0) {
        my_viol++;
        pthread_mutex_lock(&out_lock);
        printf("V idx=%u sig=C18/c/finalize-mismatch detail=thread %d of %d: S[%llu..+%u] differs from the specification\n", r->idx, t, T, (unsigned long long)r->seek, r->len);
        pthread_mutex_unlock(&out_lock);
      }
      free(o); break; }
    case 7: blake3_hasher_reset(h); break;
    case 9: memcpy(h, &slots[r->seek & 7], sizeof *h); live[r->slot & 7] = true; break;
    default: break;
    }
  }
  (void)live;
  pthread_mutex_lock(&out_lock); n_ops += my_ops; n_viol += my_viol; pthread_mutex_unlock(&out_lock);
  return NULL;
}

/* ---- writable segments of libblake3.so ---- */
typedef struct { uint8_t *addr; size_t len; uint8_t *snap; } seg_t;
static seg_t segs[8]; static int nsegs;
static int phdr_cb(struct dl_phdr_info *info, size_t size, void *data) {
  (void)size; (void)data;
  if (!info->dlpi_name || !strstr(info->dlpi_name, "libblake3")) return 0;
  for (int i = 0; i < info->dlpi_phnum; i++) {
    const ElfW(Phdr) *ph = &info->dlpi_phdr[i];
    if (ph->p_type == PT_LOAD && (ph->p_flags & PF_W) && nsegs < 8) {
      segs[nsegs].addr = (uint8_t *)(info->dlpi_addr + ph->p_vaddr); segs[nsegs].len = ph->p_memsz; segs[nsegs].snap = malloc(ph->p_memsz); nsegs++;
    }
  }
  return 0;
}

typedef struct { uint64_t ops, viol, wbytes, changed, outside; int before, after, nsegs; } child_result_t;

static child_result_t run_round(void) {
  child_result_t cr; memset(&cr, 0, sizeof cr);
  nsegs = 0;
  dl_iterate_phdr(phdr_cb, NULL);
  for (int i = 0; i < nsegs; i++) { memcpy(segs[i].snap, segs[i].addr, segs[i].len); cr.wbytes += segs[i].len; }
  g_features_ptr = (volatile int *)dlsym(RTLD_DEFAULT, "g_cpu_features");
  if (!g_features_ptr) g_features_ptr = &dummy_features;
  cr.before = *g_features_ptr;
  pthread_barrier_init(&barrier, NULL, (unsigned)T);
  pthread_t *th = malloc(sizeof(pthread_t) * (size_t)T);
  for (int t = 0; t < T; t++) pthread_create(&th[t], NULL, worker, (void *)(intptr_t)t);
  for (int t = 0; t < T; t++) pthread_join(th[t], NULL);
  long first_outside = -1;
  uint8_t *g0 = (uint8_t *)g_features_ptr;
  for (int i = 0; i < nsegs; i++) for (size_t k = 0; k < segs[i].len; k++) if (segs[i].addr[k] != segs[i].snap[k]) {
    cr.changed++;
    uint8_t *a = segs[i].addr + k;
    if (a < g0 || a >= g0 + sizeof(int)) { cr.outside++; if (first_outside < 0) first_outside = (long)k; }
  }
  if (cr.outside) { n_viol++; printf("V idx=0 sig=C18/c/shared-mutable-state detail=%llu bytes of libblake3.so's writable segments changed outside g_cpu_features (first at segment offset %ld)\n", (unsigned long long)cr.outside, first_outside); }
  cr.ops = n_ops; cr.viol = n_viol; cr.after = *g_features_ptr; cr.nsegs = nsegs;
  return cr;
}

#include <sys/wait.h>
int main(int argc, char **argv) {
  if (argc > 1) T = atoi(argv[1]);
  if (T < 1 || T > 256) T = 8;
  if (argc > 2) ROUNDS = atoi(argv[2]);
  if (ROUNDS < 1 || ROUNDS > 100000) ROUNDS = 1;
  if (argc > 3) stagger_seed = strtoull(argv[3], NULL, 10);
  parse();
  child_result_t total; memset(&total, 0, sizeof total);
  /* every round is a fresh process (fork before any library call: detection cache still UNDEFINED) */
  for (cur_round = 0; cur_round < ROUNDS; cur_round++) {
    int fds[2];
    if (pipe(fds) != 0) { perror("pipe"); return 3; }
    fflush(stdout);
    pid_t pid = fork();
    if (pid == 0) {
      close(fds[0]);
      child_result_t cr = run_round();
      fflush(stdout);
      (void)!write(fds[1], &cr, sizeof cr);
      _exit(0);
    }
    close(fds[1]);
    child_result_t cr; memset(&cr, 0, sizeof cr);
    ssize_t got = read(fds[0], &cr, sizeof cr);
    close(fds[0]);
    int st = 0; waitpid(pid, &st, 0);
    if (got != (ssize_t)sizeof cr || !WIFEXITED(st) || WEXITSTATUS(st) != 0) { fprintf(stderr, "cmt: round %d child failed (status %d)\n", cur_round, st); return 3; }
    total.ops += cr.ops; total.viol += cr.viol; total.wbytes += cr.wbytes; total.changed += cr.changed; total.outside += cr.outside;
    total.before = cr.before; total.after = cr.after; total.nsegs = cr.nsegs;
  }
  printf("SHAREDSTATE segments=%d writable_bytes=%llu changed_bytes=%llu outside_detection_cache=%llu features_before=%#x features_after=%#x\n", total.nsegs,
         (unsigned long long)total.wbytes, (unsigned long long)total.changed, (unsigned long long)total.outside, (unsigned)total.before, (unsigned)total.after);
  printf("KC fresh_processes %d\n", ROUNDS);
  printf("DISTINCT %zu\n", nrecs ? nrecs / 3 : 0);
  printf("DONE records=%zu kernel_calls=0 api_ops=%llu violations=%llu faults=0 threads=%d\n", nrecs, (unsigned long long)total.ops, (unsigned long long)total.viol, T);
  return 0;
}
