"""C12: black-box monitor of the real b3sum binary. Oracle: pyspec (b3spec.py).

Two workloads:
  * hashing invocations over mode / --length / --seek / --no-mmap / --num-threads / output form /
    file count / stdin, stdout compared byte for byte with S[seek..seek+length] from the model;
  * --check invocations over generated checkfiles mixing good, stale, missing and malformed
    entries (LF/CRLF, several checkfiles, stdin), compared with a model of the checkfile:
    expected OK/FAILED lines in order, failure count in the warning, exit status 0 iff no bad entry.
"""
import concurrent.futures
import multiprocessing
import os
import random
import shutil
import subprocess
import tempfile

import b3spec

SIZES = [0, 1, 1024, 16383, 16384, 16385, 65537]
BIG = 1 << 20
LENGTHS = [0, 1, 31, 32, 33, 64, 65, 131, 1000]
SEEKS = [0, 1, 63, 64, 65, 64 * 2**32 - 5, 2**40]
CONTEXTS = ["", "b3sum monitor context 2026", "ключ 🔑 контекст", "long context " * 90]


def _node_job(job):
    data, mode, key, ctx = job
    k, f = b3spec.mode_key_flags(mode, key, ctx.encode() if ctx is not None else None)
    n = b3spec.subtree(k, f, data)
    return (n.h, n.block, n.block_len, n.counter, n.flags)


class World:
    def __init__(self, seed, thorough):
        self.rnd = random.Random(seed * 7919 + 12)
        self.dir = tempfile.mkdtemp(prefix="verif-c12-")
        self.files = []  # (name, data)
        sizes = list(SIZES) + [self.rnd.randrange(0, 40000) for _ in range(3)]
        for i, n in enumerate(sizes):
            name = "f%02d_%d.bin" % (i, n)
            data = self.rnd.randbytes(n)
            open(os.path.join(self.dir, name), "wb").write(data)
            self.files.append((name, data))
        self.bigname = "big.bin"
        self.bigdata = self.rnd.randbytes(BIG + 3)
        open(os.path.join(self.dir, self.bigname), "wb").write(self.bigdata)
        self.keys = [self.rnd.randbytes(32), bytes(32), b"\xff" * 32]
        self.nodes = {}
        self.stdin_payloads = [self.rnd.randbytes(n) for n in (0, 5, 70000)]

    def precompute(self):
        jobs = {}
        for name, data in self.files:
            jobs[(name, "hash", None, None)] = (data, "hash", None, None)
            for k in self.keys:
                jobs[(name, "keyed", k, None)] = (data, "keyed", k, None)
            for c in CONTEXTS:
                jobs[(name, "derive", None, c)] = (data, "derive", None, c)
        jobs[(self.bigname, "hash", None, None)] = (self.bigdata, "hash", None, None)
        jobs[(self.bigname, "keyed", self.keys[0], None)] = (self.bigdata, "keyed", self.keys[0], None)
        for i, p in enumerate(self.stdin_payloads):
            jobs[("-stdin%d" % i, "hash", None, None)] = (p, "hash", None, None)
            jobs[("-stdin%d" % i, "derive", None, CONTEXTS[1])] = (p, "derive", None, CONTEXTS[1])
        keys = list(jobs)
        with multiprocessing.Pool(min(16, os.cpu_count() or 4)) as pool:
            res = pool.map(_node_job, [jobs[k] for k in keys], chunksize=1)
        for k, r in zip(keys, res):
            self.nodes[k] = b3spec.Node(*r)

    def out(self, fname, mode, key, ctx, seek, length):
        return self.nodes[(fname, mode, key, ctx)].root_bytes(seek, length)

    def cleanup(self):
        shutil.rmtree(self.dir, ignore_errors=True)


def run_b3sum(exe, args, cwd, stdin=b"", timeout=120):
    env = dict(os.environ)
    env["RUST_BACKTRACE"] = "0"
    env.pop("RAYON_NUM_THREADS", None)
    try:
        p = subprocess.run([exe] + args, cwd=cwd, input=stdin, stdout=subprocess.PIPE, stderr=subprocess.PIPE, env=env, timeout=timeout)
        return p.returncode, p.stdout, p.stderr
    except subprocess.TimeoutExpired:
        return None, b"", b"timeout"


# ---------------------------------------------------------------------------------------------
# hashing invocations
# ---------------------------------------------------------------------------------------------
def gen_hash_case(w, rnd):
    mode = rnd.choice(["hash", "hash", "keyed", "derive"])
    key = ctx = None
    args = []
    stdin = b""
    if mode == "keyed":
        key = rnd.choice(w.keys)
        args.append("--keyed")
        stdin = key
    elif mode == "derive":
        ctx = rnd.choice(CONTEXTS)
        args += ["--derive-key", ctx]
    length = rnd.choice(LENGTHS) if rnd.random() < 0.7 else 32
    seek = rnd.choice(SEEKS) if rnd.random() < 0.5 else 0
    if length != 32 or rnd.random() < 0.2:
        args += [rnd.choice(["--length", "-l"]), str(length)]
    if seek or rnd.random() < 0.1:
        args += ["--seek", str(seek)]
    if rnd.random() < 0.3:
        args.append("--no-mmap")
    if rnd.random() < 0.4:
        args += ["--num-threads", str(rnd.choice([1, 2, 16]))]
    form = rnd.choice(["plain", "plain", "tag", "no-names", "raw"])
    nfiles = 1 if form == "raw" else rnd.choice([1, 1, 2, 3, 5])
    names = []
    for _ in range(nfiles):
        r = rnd.random()
        if r < 0.08 and mode != "keyed" and "-" not in names and (mode == "hash" or ctx == CONTEXTS[1]):
            names.append("-")
        elif r < 0.12 and mode in ("hash", "keyed") and (key is None or key == w.keys[0]):
            names.append(w.bigname)
        else:
            names.append(rnd.choice(w.files)[0])
    if form == "tag":
        args.append("--tag")
    elif form == "no-names":
        args.append("--no-names")
    elif form == "raw":
        args.append("--raw")
    sidx = None
    if "-" in names:
        sidx = rnd.randrange(len(w.stdin_payloads))
        stdin = w.stdin_payloads[sidx]
    # implicit stdin: no file argument at all
    if names == ["-"] and rnd.random() < 0.5 and mode != "keyed":
        argv = args
    else:
        argv = args + names
    exp = b""
    for n in names:
        fname = n if n != "-" else "-stdin%d" % sidx
        o = w.out(fname, mode, key, ctx, seek, length)
        if form == "raw":
            exp += o
        elif form == "no-names":
            exp += o.hex().encode() + b"\n"
        elif form == "tag":
            exp += b"BLAKE3 (" + n.encode() + b") = " + o.hex().encode() + b"\n"
        else:
            exp += o.hex().encode() + b"  " + n.encode() + b"\n"
    return {"kind": "hash", "argv": argv, "stdin": stdin, "expect_stdout": exp, "expect_rc0": True,
            "class": "%s/%s/len%d/seek%s/files%d%s%s" % (mode, form, length, "0" if seek == 0 else ("big" if seek > 2**32 else "small"), nfiles,
                                                          "/no-mmap" if "--no-mmap" in args else "", "/stdin" if "-" in names else "")}


def gen_badkey_case(w, rnd):
    n = rnd.choice([0, 1, 31, 33, 64])
    return {"kind": "badkey", "argv": ["--keyed", rnd.choice(w.files)[0]], "stdin": rnd.randbytes(n), "expect_stdout": b"", "expect_rc0": False,
            "class": "badkey/%d" % n}


# ---------------------------------------------------------------------------------------------
# --check invocations
# ---------------------------------------------------------------------------------------------
def gen_check_case(w, rnd, special_dir):
    """Returns a case with one or more generated checkfiles and the model's expectations."""
    nfiles = rnd.choice([1, 1, 1, 2, 3])
    checkfiles = []
    exp_lines = []
    nbad = 0
    kinds_used = []
    for ci in range(nfiles):
        lines = []
        for _ in range(rnd.randrange(0, 9)):
            name, data = rnd.choice(w.files)
            good = w.out(name, "hash", None, None, 0, 32).hex()
            nl = rnd.choice(["\n", "\n", "\r\n"])
            k = rnd.choice(["good", "good", "good-tag", "stale", "stale-tag", "missing", "badhex", "short", "long", "empty", "dangling", "badescape",
                            "fffd", "upper", "onespace", "good-escaped"])
            kinds_used.append(k)
            if k == "good":
                lines.append(good + "  " + name + nl)
                exp_lines.append(name + ": OK")
            elif k == "good-tag":
                lines.append("BLAKE3 (" + name + ") = " + good + nl)
                exp_lines.append(name + ": OK")
            elif k == "good-escaped":
                # a real file whose name needs escaping (created once per world)
                ename = "esc\\name\nx"
                p = os.path.join(special_dir, ename)
                if not os.path.exists(p):
                    open(p, "wb").write(b"escaped file")
                h = b3spec.xof(b"escaped file").hex()
                rel = os.path.relpath(p, w.dir)
                shown = rel.replace("\\", "\\\\").replace("\n", "\\n")
                lines.append("\\" + h + "  " + shown + nl)
                exp_lines.append("\\" + shown + ": OK")
            elif k == "stale":
                other = bytearray(bytes.fromhex(good))
                other[rnd.randrange(32)] ^= 1 << rnd.randrange(8)
                lines.append(bytes(other).hex() + "  " + name + nl)
                exp_lines.append(name + ": FAILED")
                nbad += 1
            elif k == "stale-tag":
                other = bytearray(bytes.fromhex(good))
                other[rnd.randrange(32)] ^= 1 << rnd.randrange(8)
                lines.append("BLAKE3 (" + name + ") = " + bytes(other).hex() + nl)
                exp_lines.append(name + ": FAILED")
                nbad += 1
            elif k == "missing":
                mname = "missing_%d" % rnd.randrange(1000)
                lines.append(good + "  " + mname + nl)
                exp_lines.append(mname + ": FAILED (")
                nbad += 1
            else:
                nbad += 1  # malformed: diagnostic on stderr only, counted as a failure
                if k == "badhex":
                    lines.append(good[:10] + "g" + good[11:] + "  " + name + nl)
                elif k == "short":
                    lines.append(good[:-1] + "  " + name + nl)
                elif k == "long":
                    lines.append(good + "0  " + name + nl)
                elif k == "empty":
                    lines.append(nl)
                elif k == "dangling":
                    lines.append("\\" + good + "  " + name + "\\" + nl)
                elif k == "badescape":
                    lines.append("\\" + good + "  a\\tb" + nl)
                elif k == "fffd":
                    lines.append(good + "  na�me" + nl)
                elif k == "upper":
                    up = good.upper()
                    if up == good:
                        up = good[:-1] + "G"
                    lines.append(up + "  " + name + nl)
                elif k == "onespace":
                    lines.append(good + " " + name + nl)
        checkfiles.append("".join(lines))
    quiet = rnd.random() < 0.25
    argv = ["--check"] if rnd.random() < 0.7 else ["-c"]
    if quiet:
        argv.append("--quiet")
    if rnd.random() < 0.3:
        argv.append("--no-mmap")
    if rnd.random() < 0.3:
        argv += ["--num-threads", str(rnd.choice([1, 2, 16]))]
    use_stdin = nfiles == 1 and rnd.random() < 0.3
    return {"kind": "check", "argv": argv, "checkfiles": checkfiles, "use_stdin": use_stdin, "quiet": quiet,
            "expect_lines": exp_lines, "nbad": nbad, "class": "check/%d files/%s/%s" % (nfiles, "bad" if nbad else "allgood", ",".join(sorted(set(kinds_used)))[:60])}


def eval_case(exe, w, case, idx):
    """Run one case; returns (violations list of (sig, detail), observed class)."""
    v = []
    if case["kind"] in ("hash", "badkey"):
        rc, out, err = run_b3sum(exe, case["argv"], w.dir, case["stdin"])
        if rc is None:
            return [("inconclusive", "timeout")], case["class"]
        if case["expect_rc0"]:
            if rc != 0:
                v.append(("C12/hash/nonzero-exit", "b3sum %s exited %s: %s" % (case["argv"], rc, err[-200:])))
            elif out != case["expect_stdout"]:
                v.append(("C12/hash/output-mismatch", "b3sum %s printed %r... but the library's output for that mode/file/window is %r..." % (case["argv"], out[:100], case["expect_stdout"][:100])))
        else:
            if rc == 0 or out.strip():
                v.append(("C12/keyed/bad-key-length-accepted", "b3sum --keyed with a %d-byte key exited %s and printed %r" % (len(case["stdin"]), rc, out[:80])))
        return v, case["class"]
    # ---- check
    d = tempfile.mkdtemp(prefix="ck%d_" % idx, dir=w.dir)
    try:
        names = []
        for i, text in enumerate(case["checkfiles"]):
            p = os.path.join(d, "check%d.txt" % i)
            open(p, "w", encoding="utf-8", newline="").write(text)
            names.append(os.path.relpath(p, w.dir))
        stdin = b""
        argv = list(case["argv"])
        if case["use_stdin"]:
            stdin = case["checkfiles"][0].encode("utf-8")
            if idx % 2 == 0:
                argv.append("-")
        else:
            argv += names
        rc, out, err = run_b3sum(exe, argv, w.dir, stdin)
        if rc is None:
            return [("inconclusive", "timeout")], case["class"]
        lines = out.decode("utf-8", "replace").split("\n")
        if lines and lines[-1] == "":
            lines.pop()
        exp = [l for l in case["expect_lines"] if not (case["quiet"] and l.endswith(": OK"))]
        desc = "b3sum %s on checkfiles %r" % (argv, [c[:300] for c in case["checkfiles"]])
        if rc == 101:
            v.append(("C12/check/exit-status-101", "%s panicked (exit status 101): %s" % (desc, err[-200:])))
        elif (rc == 0) != (case["nbad"] == 0):
            v.append(("C12/check/exit-status-lies", "%s exited %s but the checkfiles contain %d bad entries" % (desc, rc, case["nbad"])))
        ok = len(lines) == len(exp)
        if ok:
            for got, want in zip(lines, exp):
                if want.endswith("FAILED ("):
                    ok = ok and got.startswith(want)
                else:
                    ok = ok and got == want
        if not ok and rc != 101:
            v.append(("C12/check/report-lines", "%s printed %r but the model of the checkfiles expects %r" % (desc, lines[:12], exp[:12])))
        if case["nbad"] and rc not in (None, 101):
            tag = "WARNING: %d computed checksum%s did NOT match" % (case["nbad"], "" if case["nbad"] == 1 else "s")
            if tag.encode() not in err:
                v.append(("C12/check/failure-count", "%s: stderr %r does not report %d failures" % (desc, err[-160:], case["nbad"])))
        return v, case["class"]
    finally:
        shutil.rmtree(d, ignore_errors=True)


def special_cases(exe, w):
    """Unreadable / non-UTF-8 checkfile: only a non-zero exit status is required."""
    v = []
    n = 0
    rc, out, err = run_b3sum(exe, ["--check", "no_such_checkfile"], w.dir)
    n += 1
    if rc == 0:
        v.append(("C12/check/missing-checkfile-exit-0", "b3sum --check on a missing checkfile exited 0"))
    p = os.path.join(w.dir, "nonutf8.txt")
    good = w.out(w.files[1][0], "hash", None, None, 0, 32).hex()
    open(p, "wb").write(good.encode() + b"  \xff\xfe\n")
    rc, out, err = run_b3sum(exe, ["--check", "nonutf8.txt"], w.dir)
    n += 1
    if rc == 0:
        v.append(("C12/check/non-utf8-checkfile-exit-0", "b3sum --check on a non-UTF-8 checkfile exited 0"))
    # --raw with two files must not silently emit one digest
    rc, out, err = run_b3sum(exe, ["--raw", w.files[0][0], w.files[1][0]], w.dir)
    n += 1
    if rc == 0:
        v.append(("C12/raw/two-files-accepted", "b3sum --raw with two inputs exited 0"))
    # a missing input among good ones: the good ones are still hashed, exit status non-zero
    a, b = w.files[2][0], w.files[3][0]
    rc, out, err = run_b3sum(exe, [a, "nope", b], w.dir)
    n += 1
    exp = w.out(a, "hash", None, None, 0, 32).hex().encode() + b"  " + a.encode() + b"\n" + w.out(b, "hash", None, None, 0, 32).hex().encode() + b"  " + b.encode() + b"\n"
    if rc == 0 or out != exp:
        v.append(("C12/hash/missing-input", "b3sum a nope b: exit %s stdout %r" % (rc, out[:200])))
    return v, n


def long_path_cases(exe, base_dir, sigprefix):
    """A relative path of exactly PATH_MAX-1 = 4095 bytes made only of characters that need escaping
    (each doubles in the printed line, which becomes > 8 KiB): b3sum [--tag] prints it, b3sum --check
    of that output must verify it."""
    v = []
    n = 0
    classes = set()
    for ci, (ch, tag) in enumerate([(b"\\", False), (b"\\", True), (b"\n", False), (b"\n\\", True)]):
        root = os.path.join(base_dir, "long%d" % ci)
        os.mkdir(root)
        comp = (ch * 255)[:255]
        comps = [comp] * 16
        rel = b"/".join(comps)
        assert len(rel) == 4095
        try:
            fd = os.open(root, os.O_RDONLY | os.O_DIRECTORY)
            for c in comps[:-1]:
                os.mkdir(c, dir_fd=fd)
                nfd = os.open(c, os.O_RDONLY | os.O_DIRECTORY, dir_fd=fd)
                os.close(fd)
                fd = nfd
            ffd = os.open(comps[-1], os.O_WRONLY | os.O_CREAT, 0o600, dir_fd=fd)
            os.write(ffd, b"file behind a path of 4095 bytes %d" % ci)
            os.close(ffd)
            os.close(fd)
        except OSError as e:
            v.append(("inconclusive", "cannot create a 4095-byte path here: %s" % e))
            continue
        env = dict(os.environ)
        env["RUST_BACKTRACE"] = "0"
        p = subprocess.run([exe.encode() if isinstance(exe, str) else exe] + ([b"--tag"] if tag else []) + [rel], cwd=root, stdout=subprocess.PIPE, stderr=subprocess.PIPE, env=env)
        n += 1
        form = "tag" if tag else "plain"
        classes.add("long-path/%s/%r" % (form, ch))
        want_hash = b3spec.xof(b"file behind a path of 4095 bytes %d" % ci).hex().encode()
        if p.returncode != 0 or want_hash not in p.stdout:
            v.append(("%s/long-path/hash" % sigprefix, "b3sum%s on a 4095-byte relative path of %r: exit %s, stdout %r..., stderr %r" % (" --tag" if tag else "", ch, p.returncode, p.stdout[:120], p.stderr[:200])))
            continue
        c = subprocess.run([exe, "--check"], cwd=root, input=p.stdout, stdout=subprocess.PIPE, stderr=subprocess.PIPE, env=env)
        n += 1
        if c.returncode != 0 or not c.stdout.rstrip(b"\n").endswith(b": OK") or c.stdout.count(b"\n") != 1:
            v.append(("%s/long-path/check-rejects-own-output" % sigprefix, "b3sum%s printed a %d-byte line for a 4095-byte path made of %r; b3sum --check of that line: exit %s, stdout %r..., stderr %r" % (" --tag" if tag else "", len(p.stdout), ch, c.returncode, c.stdout[-80:], c.stderr[-200:])))
    return v, n, classes


def stdin_offset_cases(exe, w, rnd):
    """Standard input is an already-open descriptor: when it is a regular file whose offset is not 0
    (`{ head -c N >/dev/null; b3sum; } < file`), the bytes from the offset on are the input."""
    v = []
    n = 0
    classes = set()
    data = rnd.randbytes(200000)
    path = os.path.join(w.dir, "stdin_file.bin")
    with open(path, "wb") as f:
        f.write(data)
    for off in (0, 1, 4096, 70001, 183617, len(data)):
        for argv in ([], ["-"], ["--no-mmap"], ["--num-threads", "1", "-"], ["--length", "50", "--seek", "3"]):
            with open(path, "rb") as f:
                f.seek(off)
                os.lseek(f.fileno(), off, os.SEEK_SET)
                env = dict(os.environ)
                env["RUST_BACKTRACE"] = "0"
                p = subprocess.run([exe] + argv, cwd=w.dir, stdin=f, stdout=subprocess.PIPE, stderr=subprocess.PIPE, env=env)
            n += 1
            classes.add("stdin-file/offset-%s/%s" % ("0" if off == 0 else "end" if off == len(data) else "mid", "-".join(argv) or "default"))
            if "--length" in argv:
                want = b3spec.xof(data[off:], seek=3, length=50).hex().encode()
            else:
                want = b3spec.xof(data[off:]).hex().encode()
            first = p.stdout.split(b" ")[0].strip()
            if p.returncode != 0 or first != want:
                v.append(("C12/hash/stdin-file-offset", "b3sum %s with standard input = a %d-byte regular file positioned at offset %d: exit %s, printed %r, the remaining bytes hash to %r" % (argv, len(data), off, p.returncode, p.stdout[:70], want[:64])))
    return v, n, classes


def faulty_input_cases(exe, w, rnd):
    """One input that delivers some bytes and then fails with a read error (the slave side of a
    pseudo-terminal whose master is closed after the bytes were consumed), among good inputs: the
    good ones must still be hashed correctly, each on its own, and the exit status must be non-zero."""
    import fcntl
    import pty
    import struct
    import termios
    import time
    import tty
    v = []
    n = 0
    classes = set()
    good = [f[0] for f in w.files[:3]]
    for variant, order in enumerate([("pty", 0), (0, "pty", 1), ("pty", 0, 1), (0, "pty"), ("pty", 2)]):
        for flags in ([], ["--no-mmap"]) if variant < 3 else (["--keyed"],) if variant == 3 else (["--length", "70", "--seek", "5"],):
            try:
                master, slave = pty.openpty()
                tty.setraw(slave)
                ptyname = os.ttyname(slave)
            except OSError as e:
                v.append(("inconclusive", "no pseudo-terminal: %s" % e))
                return v, n, classes
            payload = rnd.randbytes(rnd.choice([1, 100, 1500, 3000]))
            os.write(master, payload)
            t0 = time.time()
            while struct.unpack("i", fcntl.ioctl(slave, termios.FIONREAD, b"\0\0\0\0"))[0] != len(payload) and time.time() - t0 < 20:
                time.sleep(0.002)
            argv = [x for x in flags] + [ptyname if o == "pty" else good[o] for o in order]
            env = dict(os.environ)
            env["RUST_BACKTRACE"] = "0"
            key = w.keys[0]
            p = subprocess.Popen([exe] + argv, cwd=w.dir, stdin=subprocess.PIPE, stdout=subprocess.PIPE, stderr=subprocess.PIPE, env=env)
            try:
                if "--keyed" in flags:
                    p.stdin.write(key)
                p.stdin.close()
            except OSError:
                pass
            drained = False
            t0 = time.time()
            while time.time() - t0 < 30:
                if struct.unpack("i", fcntl.ioctl(slave, termios.FIONREAD, b"\0\0\0\0"))[0] == 0:
                    drained = True
                    break
                if p.poll() is not None:
                    break
                time.sleep(0.002)
            # hang-up. A read that is blocked at this moment fails with EIO; one that starts afterwards
            # sees end-of-file. Both are legitimate (which one happens is a race the reader cannot
            # control), so both outcomes are accepted below; the pause makes the error path the usual one.
            time.sleep(0.08)
            os.close(master)
            out = p.stdout.read()
            err = p.stderr.read()
            rc = p.wait()
            os.close(slave)
            n += 1
            classes.add("faulty-input/%d/%s" % (variant, "-".join(flags) or "default"))
            if not drained:
                v.append(("inconclusive", "faulty-input case: the pty was never read"))
                continue
            exp = b""
            for o in order:
                if o == "pty":
                    continue
                fname = good[o]
                if "--keyed" in flags:
                    hx = w.out(fname, "keyed", key, None, 0, 32).hex()
                elif "--length" in flags:
                    hx = w.out(fname, "hash", None, None, 5, 70).hex()
                else:
                    hx = w.out(fname, "hash", None, None, 0, 32).hex()
                exp += hx.encode() + b"  " + fname.encode() + b"\n"
            # outcome B: the pty simply ended (EOF): then its own line must be there too, with the hash
            # of the delivered bytes, and the exit status is 0
            exp_eof = b""
            for o in order:
                if o == "pty":
                    if "--keyed" in flags:
                        hx = b3spec.xof(payload, mode="keyed", key=key).hex()
                    elif "--length" in flags:
                        hx = b3spec.xof(payload, seek=5, length=70).hex()
                    else:
                        hx = b3spec.xof(payload).hex()
                    exp_eof += hx.encode() + b"  " + ptyname.encode() + b"\n"
                else:
                    fname = good[o]
                    if "--keyed" in flags:
                        hx = w.out(fname, "keyed", key, None, 0, 32).hex()
                    elif "--length" in flags:
                        hx = w.out(fname, "hash", None, None, 5, 70).hex()
                    else:
                        hx = w.out(fname, "hash", None, None, 0, 32).hex()
                    exp_eof += hx.encode() + b"  " + fname.encode() + b"\n"
            classes.add("faulty-input/outcome-%s" % ("eof" if rc == 0 else "error"))
            if not ((rc != 0 and out == exp) or (rc == 0 and out == exp_eof)):
                v.append(("C12/hash/input-after-failed-input", "b3sum %s where %s delivers %d bytes and then fails with EIO: exit %s, stdout %r, expected exactly the lines of the good inputs %r (stderr %r)" % (argv, ptyname, len(payload), rc, out[:300], exp[:300], err[-200:])))
    return v, n, classes


def stream_cases(exe, w, rnd, thorough):
    """Inputs that are not regular files: a FIFO fed in bursts (data arrives in several short reads),
    a seekable sysfs file that cannot be mapped. With and without --no-mmap, several modes."""
    import threading
    import time
    v = []
    n = 0
    classes = set()
    reps = 6 if thorough else 2
    for r in range(reps):
        for flags in ([], ["--no-mmap"]):
            fifo = os.path.join(w.dir, "fifo_%d_%d" % (r, len(flags)))
            os.mkfifo(fifo)
            payload = rnd.randbytes(rnd.choice([70000, 150001, 300000]))
            bursts = rnd.choice([2, 3, 5])

            def writer():
                with open(fifo, "wb", buffering=0) as f:
                    step = len(payload) // bursts + 1
                    for i in range(0, len(payload), step):
                        f.write(payload[i:i + step])
                        time.sleep(0.15)

            t = threading.Thread(target=writer)
            t.start()
            mode_args, mode, key, stdin = [], "hash", None, b""
            if r % 2 == 1:
                key = w.keys[0]
                mode_args, mode, stdin = ["--keyed"], "keyed", key
            length, seek = (80, 7) if r % 2 else (32, 0)
            argv = mode_args + flags + ["--length", str(length), "--seek", str(seek), "--no-names", os.path.basename(fifo)]
            rc, out, err = run_b3sum(exe, argv, w.dir, stdin, timeout=120)
            t.join(timeout=30)
            n += 1
            classes.add("fifo/%s/%s" % (mode, "no-mmap" if flags else "mmap-path"))
            want = b3spec.xof(payload, mode=mode, key=key, seek=seek, length=length).hex().encode() + b"\n"
            if rc != 0 or out != want:
                v.append(("C12/hash/stream-input-mismatch", "b3sum %s on a FIFO carrying %d bytes in %d bursts: exit %s, printed %r, the bytes hash to %r" % (argv, len(payload), bursts, rc, out[:70], want[:70])))
            os.unlink(fifo)
    cand = "/sys/kernel/btf/vmlinux"
    try:
        a = open(cand, "rb").read()
        b = open(cand, "rb").read()
    except OSError:
        a = b = None
    if a and a == b and 16384 <= len(a) <= (6 << 20):
        want = b3spec.xof(a).hex().encode() + b"\n"
        for flags in ([], ["--no-mmap"], ["--num-threads", "2"]):
            rc, out, err = run_b3sum(exe, flags + ["--no-names", cand], w.dir)
            n += 1
            classes.add("sysfs/%s" % ("-".join(flags) or "default"))
            if rc != 0 or out != want:
                v.append(("C12/hash/stream-input-mismatch", "b3sum %s %s (%d bytes, seekable, not mappable): exit %s, printed %r, the bytes hash to %r" % (flags, cand, len(a), rc, out[:70], want[:70])))
    return v, n, classes


def run(exe, seed, thorough, scale=1.0):
    w = World(seed, thorough)
    try:
        w.precompute()
        rnd = random.Random(seed * 104729 + 5)
        n_hash = int((12000 if thorough else 2200) * scale)
        n_check = int((8000 if thorough else 1400) * scale)
        special_dir = os.path.join(w.dir, "sp")
        os.makedirs(special_dir, exist_ok=True)
        cases = []
        for i in range(n_hash):
            cases.append(gen_badkey_case(w, rnd) if i % 40 == 39 else gen_hash_case(w, rnd))
        for i in range(n_check):
            cases.append(gen_check_case(w, rnd, special_dir))
        results = [None] * len(cases)

        def one(i):
            results[i] = eval_case(exe, w, cases[i], i)

        with concurrent.futures.ThreadPoolExecutor(max_workers=16) as ex:
            list(ex.map(one, range(len(cases))))
        violations = []
        classes = set()
        inconclusive = 0
        for i, (vs, cls) in enumerate(results):
            classes.add(cls)
            for sig, detail in vs:
                if sig == "inconclusive":
                    inconclusive += 1
                else:
                    violations.append((sig, detail, i))
        sv, sn = special_cases(exe, w)
        for sig, detail in sv:
            violations.append((sig, detail, -1))
        tv, tn, tclasses = stream_cases(exe, w, rnd, thorough)
        for sig, detail in tv:
            violations.append((sig, detail, -2))
        sn += tn
        classes |= tclasses
        for fn in (lambda: stdin_offset_cases(exe, w, rnd), lambda: long_path_cases(exe, w.dir, "C12/check"), lambda: faulty_input_cases(exe, w, rnd)):
            xv, xn, xclasses = fn()
            for sig, detail in xv:
                if sig == "inconclusive":
                    inconclusive += 1
                else:
                    violations.append((sig, detail, -3))
            sn += xn
            classes |= xclasses
        samples = []
        for c in cases[:2] + cases[n_hash:n_hash + 2]:
            s = {"kind": c["kind"], "argv": c["argv"], "class": c["class"]}
            if c["kind"] == "check":
                s["checkfile"] = c["checkfiles"][0][:400]
                s["expect_lines"] = c["expect_lines"][:6]
            samples.append(s)
        return {"evaluations": len(cases) + sn, "distinct": len(classes), "violations": violations, "samples": samples, "inconclusive": inconclusive,
                "hash_invocations": n_hash, "check_invocations": n_check,
                "check_cases_with_bad_entries": sum(1 for c in cases if c["kind"] == "check" and c["nbad"]),
                "check_cases_all_good": sum(1 for c in cases if c["kind"] == "check" and not c["nbad"])}
    finally:
        w.cleanup()


# ---------------------------------------------------------------------------------------------
# C13 end-to-end: real files with hostile names -> b3sum [--tag] -> lines -> parse / --check
# ---------------------------------------------------------------------------------------------
NAME_PIECES = [b" ", b"  ", b") = ", b"BLAKE3 (", b"\\", b"\\\\", b"\r", b"\n", b"\\n", b"\\r", b"a", b"b", b"dir", b"\xc3\xa9", b"\xe5\x90\xa6",
               b"\xf0\x9f\x98\x80", b"\xff", b"\xc3", b"\xef\xbf\xbd", b"=", b"(x)", b"-", b"+", b"'", b"\"", b"*", b"\t",
               # line / paragraph separators other than CR and LF, other Unicode white space, control characters
               b"\xc2\x85", b"\xe2\x80\xa8", b"\xe2\x80\xa9", b"\xc2\xa0", b"\xe3\x80\x80", b"\xef\xbb\xbf", b"\x0b", b"\x0c", b"\x01", b"\x1b[31m", b"\x7f"]
TRAILERS = [b"\xc2\x85", b"\xe2\x80\xa8", b"\xe2\x80\xa9", b"\xc2\xa0", b"\xe3\x80\x80", b"\xef\xbb\xbf", b"\x0b", b"\x0c", b"\x01", b" ", b"\t", b"\x7f"]


def run_on_tty(argv, cwd, env):
    """Run argv with standard output on a pseudo-terminal (raw mode, so that what the program writes
    arrives unchanged) and return (exit status, bytes written)."""
    import pty
    import tty
    master, slave = pty.openpty()
    tty.setraw(slave)
    p = subprocess.Popen(argv, cwd=cwd, stdout=slave, stderr=subprocess.PIPE, stdin=subprocess.DEVNULL, env=env)
    os.close(slave)
    out = b""
    while True:
        try:
            chunk = os.read(master, 65536)
        except OSError:
            break
        if not chunk:
            break
        out += chunk
    os.close(master)
    p.stderr.read()
    p.wait()
    return p.returncode, out


def representable(name):
    try:
        s = name.decode("utf-8")
    except UnicodeDecodeError:
        return False
    return "�" not in s and "\0" not in s


def run_names(b3sum, b3mon, seed, thorough, scale=1.0):
    rnd = random.Random(seed * 31337 + 13)
    d = tempfile.mkdtemp(prefix="verif-c13-").encode()
    violations = []
    evaluations = 0
    classes = set()
    samples = []
    try:
        nbatches = int((600 if thorough else 60) * scale)
        fileno = 0
        # systematic: the first double space / ") = " of a name at every offset 0..79, in both forms
        # (a fixed-width rule for one form must not capture lines of the other form)
        systematic = []
        for sep in (b"  ", b") = ", b"  ) = "):
            for k0 in range(0, 80, 8):
                for tagged in (False, True):
                    systematic.append(([b"a" * k + sep + b"b" for k in range(k0, k0 + 8)], tagged))
        # names that end in (or consist of a letter and) a separator-like character, both forms
        for tagged in (False, True):
            systematic.append(([b"setup.sh" + t for t in TRAILERS[:6]], tagged))
            systematic.append(([b"setup.sh" + t for t in TRAILERS[6:]] + [b"setup.sh"], tagged))
        for bi in range(len(systematic) + nbatches):
            names = []
            sub = os.path.join(d, b"b%d" % bi)
            os.mkdir(sub)
            forced_tag = None
            if bi < len(systematic):
                names, forced_tag = list(systematic[bi][0]), systematic[bi][1]
            else:
                for _ in range(rnd.randrange(1, 9)):
                    n = b"".join(rnd.choice(NAME_PIECES) for _ in range(rnd.randrange(1, 7)))
                    if n in (b".", b"..") or n in names or len(n) > 200 or n.startswith(b"-"):
                        continue
                    names.append(n)
            if not names:
                continue
            contents = {}
            ok = []
            for n in names:
                fileno += 1
                data = b"hostile name file %d" % fileno
                try:
                    with open(os.path.join(sub, n), "wb") as f:
                        f.write(data)
                except OSError:
                    continue
                contents[n] = data
                ok.append(n)
            names = ok
            if not names:
                continue
            tag = (rnd.random() < 0.5) if forced_tag is None else forced_tag
            argv = [b3sum.encode()] + ([b"--tag"] if tag else []) + names
            env = dict(os.environ)
            env["RUST_BACKTRACE"] = "0"
            on_tty = (bi % 3 == 2)
            if on_tty:
                # the same through a terminal: what is printed there is what gets copied into checkfiles
                class _R:
                    pass
                p = _R()
                p.returncode, p.stdout = run_on_tty(argv, sub, env)
            else:
                p = subprocess.run(argv, cwd=sub, stdout=subprocess.PIPE, stderr=subprocess.PIPE, env=env)
            evaluations += 1
            form = ("tag" if tag else "plain") + ("-on-tty" if on_tty else "")
            lines = p.stdout.split(b"\n")
            if lines and lines[-1] == b"":
                lines.pop()
            if p.returncode != 0 or len(lines) != len(names):
                violations.append(("C13/cli/print/line-count", "b3sum %s on names %r exited %s and printed %d lines for %d files: %r" % (form, names, p.returncode, len(lines), len(names), p.stdout[:300])))
                continue
            # in-process parse of exactly what was printed
            q = subprocess.run([b3mon, "parse-stdin"], input=p.stdout, stdout=subprocess.PIPE, stderr=subprocess.PIPE)
            parsed = q.stdout.decode("utf-8", "replace").splitlines()
            if len(parsed) != len(names):
                violations.append(("C13/cli/parse/line-count", "parse-stdin returned %d results for %d lines" % (len(parsed), len(names))))
                continue
            nrep = 0
            for n, line, res in zip(names, lines, parsed):
                evaluations += 1
                rp = representable(n)
                nrep += rp
                feat = "two-spaces" if b"  " in n else "paren-eq" if b") = " in n else "tag-prefix" if n.startswith(b"BLAKE3 (") else "needs-escape" if (b"\\" in n or b"\n" in n or b"\r" in n) else "other"
                classes.add("%s/%s/%s" % (form, feat, "rep" if rp else "unrep"))
                want_hash = b3spec.xof(contents[n]).hex()
                if res.startswith("PANIC"):
                    violations.append(("C13/cli/parse/panic", "line %r printed for name %r makes the parser panic: %s" % (line, n, res)))
                elif res.startswith("OK "):
                    _, phex, hhex, esc = res.split()
                    if not rp:
                        violations.append(("C13/cli/%s/unrepresentable-accepted" % form, "name %r cannot be represented but its printed line %r is accepted as path %r" % (n, line, bytes.fromhex(phex))))
                    elif bytes.fromhex(phex) != n or hhex != want_hash:
                        violations.append(("C13/cli/%s/%s/wrong-roundtrip" % (form, feat), "name %r printed by b3sum%s as %r parses back to path %r hash %s (file hash %s)" % (n, " --tag" if tag else "", line, bytes.fromhex(phex), hhex[:16], want_hash[:16])))
                else:
                    if rp:
                        violations.append(("C13/cli/%s/%s/rejected" % (form, feat), "name %r printed by b3sum%s as %r is rejected by the check parser: %s" % (n, " --tag" if tag else "", line, res)))
            # and the real --check on the real output
            c = subprocess.run([b3sum, "--check"], cwd=sub, input=p.stdout, stdout=subprocess.PIPE, stderr=subprocess.PIPE, env=env)
            evaluations += 1
            oks = [l for l in c.stdout.split(b"\n") if l.endswith(b": OK")]
            if c.returncode == 101:
                violations.append(("C13/cli/check/panic", "b3sum --check panicked on b3sum's own output for names %r" % names))
            elif len(oks) != nrep or (c.returncode == 0) != (nrep == len(names)):
                violations.append(("C13/cli/%s/check-disagrees" % form, "b3sum%s | b3sum --check over names %r: %d OK lines (expected %d representable), exit %s; stdout %r stderr %r" % (" --tag" if tag else "", names, len(oks), nrep, c.returncode, c.stdout[:300], c.stderr[:200])))
            if len(samples) < 3:
                samples.append({"names": [repr(n) for n in names], "form": form, "printed": p.stdout.decode("utf-8", "replace")[:400]})
        lv, ln, lclasses = long_path_cases(b3sum, d.decode(), "C13/cli")
        inconclusive = [detail for sig, detail in lv if sig == "inconclusive"]
        violations += [x for x in lv if x[0] != "inconclusive"]
        evaluations += ln
        classes |= lclasses
        return {"evaluations": evaluations, "distinct": len(classes), "violations": violations, "samples": samples, "classes": sorted(classes), "inconclusive": inconclusive}
    finally:
        shutil.rmtree(d, ignore_errors=True)
