#!/usr/bin/env python3
"""Second executable model of the BLAKE3 specification (stdlib only, big-int arithmetic).

Written from the paper independently of harness/specmodel (Rust): here the tree is built
bottom-up from the list of chunk chaining values, splitting the *chunk list* at the largest
power of two strictly below its length, and the compression function works on Python ints.

Used (a) to cross-check specmodel on every run, (b) as the oracle for test_vectors.json and
(c) as the oracle for the b3sum command line monitors.
"""
import struct
import sys

IV = [0x6A09E667, 0xBB67AE85, 0x3C6EF372, 0xA54FF53A, 0x510E527F, 0x9B05688C, 0x1F83D9AB, 0x5BE0CD19]
PERM = [2, 6, 3, 10, 7, 0, 4, 13, 1, 11, 12, 5, 9, 14, 15, 8]
CHUNK_START, CHUNK_END, PARENT, ROOT, KEYED_HASH, DERIVE_KEY_CONTEXT, DERIVE_KEY_MATERIAL = 1, 2, 4, 8, 16, 32, 64
M32 = 0xFFFFFFFF


def _rotr(x, n):
    return ((x >> n) | (x << (32 - n))) & M32


def compress(h, block_words, counter, block_len, flags):
    v = list(h) + IV[:4] + [counter & M32, (counter >> 32) & M32, block_len, flags]
    m = list(block_words)

    def g(a, b, c, d, x, y):
        v[a] = (v[a] + v[b] + x) & M32
        v[d] = _rotr(v[d] ^ v[a], 16)
        v[c] = (v[c] + v[d]) & M32
        v[b] = _rotr(v[b] ^ v[c], 12)
        v[a] = (v[a] + v[b] + y) & M32
        v[d] = _rotr(v[d] ^ v[a], 8)
        v[c] = (v[c] + v[d]) & M32
        v[b] = _rotr(v[b] ^ v[c], 7)

    for r in range(7):
        g(0, 4, 8, 12, m[0], m[1])
        g(1, 5, 9, 13, m[2], m[3])
        g(2, 6, 10, 14, m[4], m[5])
        g(3, 7, 11, 15, m[6], m[7])
        g(0, 5, 10, 15, m[8], m[9])
        g(1, 6, 11, 12, m[10], m[11])
        g(2, 7, 8, 13, m[12], m[13])
        g(3, 4, 9, 14, m[14], m[15])
        m = [m[PERM[i]] for i in range(16)]
    return [v[i] ^ v[i + 8] for i in range(8)] + [v[i + 8] ^ h[i] for i in range(8)]


def _words(b):
    return list(struct.unpack("<%dI" % (len(b) // 4), b))


def _bytes(ws):
    return struct.pack("<%dI" % len(ws), *ws)


class Node:
    __slots__ = ("h", "block", "block_len", "counter", "flags")

    def __init__(self, h, block, block_len, counter, flags):
        self.h, self.block, self.block_len, self.counter, self.flags = h, block, block_len, counter, flags

    def cv(self):
        return compress(self.h, _words(self.block), self.counter, self.block_len, self.flags)[:8]

    def root_bytes(self, seek, length):
        out = bytearray()
        pos, end = seek, seek + length
        while pos < end:
            k, within = divmod(pos, 64)
            blk = _bytes(compress(self.h, _words(self.block), k, self.block_len, self.flags | ROOT))
            take = min(64 - within, end - pos)
            out += blk[within:within + take]
            pos += take
        return bytes(out)


def chunk_node(key, data, counter, flags):
    assert len(data) <= 1024
    blocks = [data[i:i + 64] for i in range(0, len(data), 64)] or [b""]
    h = key
    for i, blk in enumerate(blocks):
        f = flags | (CHUNK_START if i == 0 else 0) | (CHUNK_END if i == len(blocks) - 1 else 0)
        padded = blk + b"\0" * (64 - len(blk))
        if i == len(blocks) - 1:
            return Node(h, padded, len(blk), counter, f)
        h = compress(h, _words(padded), counter, 64, f)[:8]


def _tree(key, flags, items):
    """items: list of nodes (leaves, in order). Split at the largest power of two < len."""
    if len(items) == 1:
        return items[0]
    p = 1
    while p * 2 < len(items):
        p *= 2
    left = _tree(key, flags, items[:p]).cv()
    right = _tree(key, flags, items[p:]).cv()
    return Node(key, _bytes(left + right), 64, 0, flags | PARENT)


def subtree(key, flags, data, first_chunk=0):
    chunks = [data[i:i + 1024] for i in range(0, len(data), 1024)] or [b""]
    leaves = [chunk_node(key, c, (first_chunk + i) & (2**64 - 1), flags) for i, c in enumerate(chunks)]
    return _tree(key, flags, leaves)


def mode_key_flags(mode, key=None, context=None):
    if mode == "hash":
        return IV, 0
    if mode == "keyed":
        assert len(key) == 32
        return _words(key), KEYED_HASH
    if mode == "derive":
        ck = subtree(IV, DERIVE_KEY_CONTEXT, context).root_bytes(0, 32)
        return _words(ck), DERIVE_KEY_MATERIAL
    raise ValueError(mode)


def xof(data, mode="hash", key=None, context=None, seek=0, length=32):
    k, f = mode_key_flags(mode, key, context)
    return subtree(k, f, data).root_bytes(seek, length)


def subtree_cv(data, first_chunk, mode="hash", key=None, context=None):
    k, f = mode_key_flags(mode, key, context)
    return _bytes(subtree(k, f, data, first_chunk).cv())


ANCHORS = [
    (b"", "af1349b9f5f9a1a6a0404dea36dcc9499bcb25c9adc112b7cc9a93cae41f3262"),
    (b"abc", "6437b3ac38465133ffb63b75273a8db548c558465d79db03fd359c6cd5bd9d85"),
    (b"hello world", "d74981efa70a0c880b8d8c1985d075dbcbf679b99a5f9914e5aaf96b831a9e24"),
]


def selftest():
    for m, want in ANCHORS:
        got = xof(m).hex()
        if got != want:
            raise SystemExit("pyspec anchor mismatch for %r: %s" % (m, got))


def _serve():
    """Line protocol used by the Rust harness cross-check:
    request:  <mode> <keyhex|-> <ctxhex|-> <first_chunk> <seek> <length> <kind> <datahex|->
    kind = root  -> reply hex of S[seek..seek+length]
    kind = cv    -> reply hex of the non-root chaining value of the subtree at first_chunk
    """
    for line in sys.stdin:
        parts = line.split()
        if not parts:
            continue
        mode, keyhex, ctxhex, first, seek, length, kind, datahex = parts
        key = bytes.fromhex(keyhex) if keyhex != "-" else None
        ctx = bytes.fromhex(ctxhex) if ctxhex != "-" else b""
        data = bytes.fromhex(datahex) if datahex != "-" else b""
        k, f = mode_key_flags(mode, key, ctx)
        node = subtree(k, f, data, int(first))
        if kind == "root":
            sys.stdout.write(node.root_bytes(int(seek), int(length)).hex() + "\n")
        else:
            sys.stdout.write(_bytes(node.cv()).hex() + "\n")
        sys.stdout.flush()


if __name__ == "__main__":
    selftest()
    if len(sys.argv) > 1 and sys.argv[1] == "serve":
        _serve()
    else:
        print("pyspec selftest ok")
