#!/usr/bin/env python3
"""Confirms a sub-agent's seeded change in its scratch worktree and, if confirmed, stores it under
/verif/seeded/<Cxx>-<mN>/ (patch.diff, the demonstration, the agent's notes, meta.json).

    python3 driver/confirm_seeded.py C03 m1 [--demo-cmd '...']

Confirmation = (1) the patch applies to the worktree's HEAD, (2) the repository's existing suite
still passes with it (44 + 13), (3) the demonstration fails with the patch, (4) passes without.
"""
import json
import os
import re
import shutil
import subprocess
import sys
import time

WT = "/tmp/wt"
VERIF = os.path.dirname(os.path.dirname(os.path.abspath(__file__)))


def sh(cmd, cwd, timeout=3000, env=None):
    e = dict(os.environ)
    e["CARGO_NET_OFFLINE"] = "true"
    e["RUST_BACKTRACE"] = "0"
    if env:
        e.update(env)
    try:
        p = subprocess.run(cmd, cwd=cwd, shell=isinstance(cmd, str), stdout=subprocess.PIPE, stderr=subprocess.STDOUT, timeout=timeout, env=e)
        return p.returncode, p.stdout.decode("utf-8", "replace")
    except subprocess.TimeoutExpired as ex:
        return -9, (ex.stdout or b"").decode("utf-8", "replace") + "\nTIMEOUT"


def demo_command(mdir, wt):
    if os.path.exists(os.path.join(mdir, "demo.sh")):
        return "bash %s" % os.path.join(mdir, "demo.sh")
    for sub in ("demo", "demo_rs"):
        if os.path.exists(os.path.join(mdir, sub, "Cargo.toml")):
            return "cd %s && CARGO_TARGET_DIR=%s/target/demo cargo run --offline --release -q" % (os.path.join(mdir, sub), wt)
    return None


def main():
    prop, m = sys.argv[1], sys.argv[2]
    demo_cmd = None
    if "--demo-cmd" in sys.argv:
        demo_cmd = sys.argv[sys.argv.index("--demo-cmd") + 1]
    wt = os.path.join(WT, prop)
    mdir = os.path.join(wt, "MUTANTS", m)
    patch = os.path.join(mdir, "patch.diff")
    name = "%s-%s" % (prop, m)
    log = {"name": name, "steps": []}
    sh("git checkout -- .", wt)
    rc, out = sh(["git", "apply", "--check", patch], wt)
    if rc != 0:
        print(name, "PATCH DOES NOT APPLY", out[-300:])
        return 1
    demo_cmd = demo_cmd or demo_command(mdir, wt)
    if not demo_cmd:
        print(name, "no demo command found; pass --demo-cmd")
        return 1
    try:
        sh(["git", "apply", patch], wt)
        t0 = time.time()
        rc, out = sh("cargo test --workspace --no-fail-fast --offline 2>&1 | grep -E '^test result|FAILED|error' ", wt)
        passed = re.findall(r"test result: ok\. (\d+) passed; 0 failed", out)
        suite_ok = passed[:2] == ["44", "13"] and "FAILED" not in out
        log["steps"].append({"cmd": "cargo test --workspace --no-fail-fast --offline (patch applied)", "result": out.strip()[-300:], "ok": suite_ok})
        rc1, out1 = sh(demo_cmd, wt)
        log["steps"].append({"cmd": demo_cmd + "   # patch applied", "exit": rc1, "tail": out1.strip()[-600:]})
    finally:
        sh("git checkout -- .", wt)
    rc0, out0 = sh(demo_cmd, wt)
    log["steps"].append({"cmd": demo_cmd + "   # unmodified HEAD", "exit": rc0, "tail": out0.strip()[-300:]})
    confirmed = suite_ok and rc1 != 0 and rc0 == 0
    print("%s suite_ok=%s demo_with_patch_exit=%s demo_on_head_exit=%s => %s" % (name, suite_ok, rc1, rc0, "CONFIRMED" if confirmed else "NOT CONFIRMED"))
    if not confirmed:
        print(json.dumps(log, indent=1)[-2500:])
        return 1
    dst = os.path.join(VERIF, "seeded", name)
    if os.path.isdir(dst):
        shutil.rmtree(dst)
    shutil.copytree(mdir, dst, ignore=shutil.ignore_patterns("target", "*.o", "*.so", "Cargo.lock", "*.bin", "a.out"))
    # drop anything large
    for root, dirs, files in os.walk(dst):
        for f in files:
            p = os.path.join(root, f)
            if os.path.getsize(p) > 300_000:
                os.unlink(p)
    notes = open(os.path.join(mdir, "NOTES.md"), errors="replace").read() if os.path.exists(os.path.join(mdir, "NOTES.md")) else ""
    meta = {
        "property": prop,
        "origin": "independent sub-agent given only the property text and a scratch worktree of /repo (%s)" % wt,
        "needs_to_manifest": " ".join(notes.split())[:900],
        "confirmed_by_me": log["steps"],
        "confirmed_at": time.strftime("%Y-%m-%dT%H:%M:%S"),
        "base_commit": subprocess.run(["git", "-C", wt, "rev-parse", "HEAD"], stdout=subprocess.PIPE).stdout.decode().strip(),
    }
    json.dump(meta, open(os.path.join(dst, "meta.json"), "w"), indent=1)
    return 0


if __name__ == "__main__":
    sys.exit(main())
