"""Builds the C driver (cdrv) variants from /repo/c's current working tree. Always recompiles
(a few seconds, parallel)."""
import concurrent.futures
import os
import shutil
import subprocess

import core

C = os.path.join(core.REPO, "c")
CDRV = os.path.join(core.VERIF, "cdrv")
BUILD = os.path.join(CDRV, "build")

UNIX_ASM = ["blake3_sse2_x86-64_unix.S", "blake3_sse41_x86-64_unix.S", "blake3_avx2_x86-64_unix.S", "blake3_avx512_x86-64_unix.S"]
WIN_ASM = ["blake3_sse2_x86-64_windows_gnu.S", "blake3_sse41_x86-64_windows_gnu.S", "blake3_avx2_x86-64_windows_gnu.S", "blake3_avx512_x86-64_windows_gnu.S"]
INTRIN = [("blake3_sse2.c", ["-msse2"]), ("blake3_sse41.c", ["-msse4.1"]), ("blake3_avx2.c", ["-mavx2"]), ("blake3_avx512.c", ["-mavx512f", "-mavx512vl"])]
CORE_C = ["blake3.c", "blake3_dispatch.c", "blake3_portable.c"]


def _cc(cmd, cwd=None):
    p = subprocess.run(cmd, cwd=cwd, stdout=subprocess.PIPE, stderr=subprocess.STDOUT)
    if p.returncode != 0:
        raise core.HarnessError("C build failed: %s\n%s" % (" ".join(cmd), p.stdout.decode("utf-8", "replace")[-3000:]))


import atexit
import threading

_lock = threading.Lock()
_cache = {}
_dirs = []


def _cleanup():
    for d in _dirs:
        shutil.rmtree(d, ignore_errors=True)


atexit.register(_cleanup)


def build(variant, san="native", extra_defs=(), extra_srcs=(), name=None, lib_defs=()):
    """variant: 'asm' (Unix .S + Windows-GNU .S via ms_abi trampolines) or 'int' (C intrinsics).
    san: native | asan | tsan. Returns path of the executable. Each check process builds into
    its own directory (removed at exit) so that concurrent checks never collide; within one
    process a variant is built once."""
    key = (variant, san, tuple(extra_defs), tuple(extra_srcs), name, tuple(lib_defs))
    with _lock:
        if key in _cache:
            return _cache[key]
        exe = _build(variant, san, extra_defs, extra_srcs, name, lib_defs)
        _cache[key] = exe
        return exe


def _build(variant, san, extra_defs, extra_srcs, name, lib_defs=()):
    """lib_defs: preprocessor configuration of the library itself (BLAKE3_NO_SSE41 ...), applied to
    the files of /repo/c only; the driver keeps seeing every prototype."""
    name = name or "cdrv_%s_%s" % (variant, san)
    out = os.path.join(BUILD, "%s-%d" % (name, os.getpid()))
    if os.path.isdir(out):
        shutil.rmtree(out)
    os.makedirs(out)
    _dirs.append(out)
    if san == "native":
        cc = "gcc"
        cflags = ["-O2", "-g", "-fstack-protector-all", "-Wall"]
    elif san == "asan":
        cc = "clang"
        cflags = ["-O1", "-g", "-fsanitize=address,undefined", "-fno-sanitize-recover=all", "-fno-omit-frame-pointer"]
    elif san == "tsan":
        cc = "clang"
        cflags = ["-O1", "-g", "-fsanitize=thread", "-fno-omit-frame-pointer"]
    elif san == "clangO0":
        cc = "clang"
        cflags = ["-O0", "-g"]
    else:
        raise core.HarnessError("bad sanitizer " + san)
    defs = ["-DBLAKE3_TESTING", "-I", C] + list(extra_defs)
    objs = []
    jobs = []

    def obj(src, flags, oname=None):
        o = os.path.join(out, (oname or os.path.basename(src)) + ".o")
        jobs.append(([cc] + cflags + defs + flags + ["-c", src, "-o", o], o))
        return o

    lib_defs = list(lib_defs)
    for f in CORE_C:
        objs.append(obj(os.path.join(C, f), lib_defs))
    if variant == "asm":
        defs += ["-DCDRV_HAVE_TRAMP", "-DCDRV_WINGNU"]
        for f in UNIX_ASM:
            objs.append(obj(os.path.join(C, f), ["-mavx512f", "-mavx512vl"]))
        objs.append(obj(os.path.join(CDRV, "tramp.S"), []))
    else:
        for f, fl in INTRIN:
            objs.append(obj(os.path.join(C, f), fl + lib_defs))
    for s in extra_srcs:
        objs.append(obj(s, []))
    objs.append(obj(os.path.join(CDRV, "cdrv.c"), []))
    with concurrent.futures.ThreadPoolExecutor(max_workers=16) as ex:
        list(ex.map(lambda j: _cc(j[0]), jobs))
    if variant == "asm":
        # Windows-GNU assembly: assemble on Linux, prefix symbols with wg_, make .rdata loadable
        for f in WIN_ASM:
            o = os.path.join(out, f + ".o")
            _cc(["gcc", "-c", os.path.join(C, f), "-mavx512f", "-mavx512vl", "-o", o])
            _cc(["objcopy", "--prefix-symbols=wg_", "--rename-section", ".rdata=.rodata,alloc,load,readonly,data,contents", o])
            objs.append(o)
    exe = os.path.join(out, "cdrv")
    link = [cc] + cflags + objs + ["-o", exe, "-lpthread"]
    _cc(link)
    return exe


def build_cmt(san="native"):
    """libblake3.so (from /repo/c, Unix assembly flavour) + the threaded executor cmt linked against
    it. san: native | tsan (tsan: static link of instrumented C, intrinsics flavour, no .so)."""
    key = ("cmt", san)
    with _lock:
        if key in _cache:
            return _cache[key]
        out = os.path.join(BUILD, "cmt_%s-%d" % (san, os.getpid()))
        if os.path.isdir(out):
            shutil.rmtree(out)
        os.makedirs(out)
        _dirs.append(out)
        exe = os.path.join(out, "cmt")
        if san == "native":
            srcs = [os.path.join(C, f) for f in CORE_C + UNIX_ASM]
            _cc(["gcc", "-O2", "-g", "-fPIC", "-shared", "-DBLAKE3_TESTING", "-mavx512f", "-mavx512vl", "-Wl,-z,now", "-I", C] + srcs + ["-o", os.path.join(out, "libblake3.so")])
            _cc(["gcc", "-O2", "-g", "-Wall", "-I", C, os.path.join(CDRV, "cmt.c"), "-L", out, "-lblake3", "-Wl,-rpath," + out, "-lpthread", "-ldl", "-o", exe])
        else:
            # tsan: instrumented; clang: the same static intrinsics build at -O1 without a sanitizer
            # (results of kernels running on several threads at once, compared with the model)
            sanflags = ["-fsanitize=thread"] if san == "tsan" else []
            objs = []
            for f in CORE_C:
                o = os.path.join(out, f + ".o")
                _cc(["clang", "-O1", "-g"] + sanflags + ["-DBLAKE3_TESTING", "-I", C, "-c", os.path.join(C, f), "-o", o])
                objs.append(o)
            for f, fl in INTRIN:
                o = os.path.join(out, f + ".o")
                _cc(["clang", "-O1", "-g"] + sanflags + ["-DBLAKE3_TESTING", "-I", C] + fl + ["-c", os.path.join(C, f), "-o", o])
                objs.append(o)
            _cc(["clang", "-O1", "-g"] + sanflags + ["-I", C, os.path.join(CDRV, "cmt.c")] + objs + ["-lpthread", "-ldl", "-rdynamic", "-o", exe])
        _cache[key] = exe
        return exe
