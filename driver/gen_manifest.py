#!/usr/bin/env python3
"""Regenerates MANIFEST.json from the table below (kept in one place so that it stays valid)."""
import json, os, sys
HERE = os.path.dirname(os.path.dirname(os.path.abspath(__file__)))
sys.path.insert(0, os.path.join(HERE, "driver"))

BASE_NOTE = ("Trusted base: harness/specmodel (Rust) and pyspec/b3spec.py (Python), two from-the-paper models cross-checked "
             "against each other and against externally known digests on every run; the kernel MMU for guard pages; the "
             "listed tools. Only executions actually produced are covered; evidence lists what was observed.")

CHECKS = {
    "C01": dict(technique="reference-model monitor (specmodel differential) over a length lattice, forced SIMD levels via hook H1, debug+release builds of all three crate flavours, one-at-a-time inputs beyond 2^31 / 2^32 bytes, big-endian and 32-bit targets under Miri (thorough)",
                text="Every one-shot call on an exhaustive prefix range, a block/chunk/subtree lattice and seeded random lengths is compared with an independent executable model of the paper; panics are caught per call.",
                ref="DESIGN.md §5 C01"),
    "C02": dict(technique="history + executable model monitor: count() after every op, finalize/finalize_xof vs specmodel, clone-before/compare-after purity probe, clone_from, single updates beyond 2^31 / 2^32 bytes, asm/intrinsics/pure flavours",
                text="Thousands of short hostile call histories over every absorbing entry point on 1-4 hashers, each shadowed by a memoising model of the bytes absorbed so far.",
                ref="DESIGN.md §5 C02"),
}

CHECKS.update({
    "C03": dict(technique="history + stream-model monitor over OutputReader ops (fill/read/read_exact/take/set_position/seek/clone) at all forced SIMD levels in the asm, intrinsics and pure flavours",
                text="Every read is compared with specmodel's S[p..p+n] and every position with the model position; failing seeks must error and leave the position unchanged; block counters on both sides of 2^32.",
                ref="DESIGN.md §5 C03"),
    "C09": dict(technique="reference-model monitor over random valid tree decompositions and large-offset subtree CVs; big-int oracle sweeps of the two length helpers",
                text="Random recursive/grouped decompositions merged with the hazmat functions are compared with the model's whole-input output; subtree chaining values at chunk counters up to 2^54-1; helper functions against u128 definitions.",
                ref="DESIGN.md §5 C09"),
    "C10": dict(technique="history monitor with model-of-a-fresh-hasher oracle after reset(); clone slots with divergent continuations",
                text="After every operation every instance is compared (count, finalize, XOF window, finalize_non_root) with the model of a newly constructed hasher fed the bytes since construction/reset, including histories with hazmat offsets.",
                ref="DESIGN.md §5 C10"),
})

CHECKS.update({
    "C05": dict(technique="kernel-call monitor vs specmodel compression function: every kernel by symbol (C portable, C intrinsics, Unix asm, Windows-GNU asm via ms_abi trampoline, dispatcher under 5 feature masks) and through blake3::platform::Platform in asm/intr/pure crate flavours; narrow arguments passed with dirty upper bits where the ABI leaves them undefined; the intrinsics kernels with several threads inside them at once",
                text="Structural parameters (block_len x flags, num_inputs x blocks x increment, xof block counts) are enumerated, data/counter classes/alignments seeded; each output is compared bit-exactly with the specification's compression function.",
                ref="DESIGN.md §5 C05"),
    "C06": dict(technique="C op-script API histories (init variants, update splits, finalize/finalize_seek, reset, struct copy) under every g_cpu_features mask in assembly and intrinsics builds, expected bytes from specmodel with the Rust crate as third voice; memcmp state monitor around finalize; size-class probes: one update / one finalize call moving more than 2^32 bytes",
                text="blake3_hasher histories are executed by the C driver and every finalize output S[seek..seek+len] is compared with the model; finalize must leave the object bytewise unchanged, reset must equal a fresh init on all live fields, the two derive-key initialisers must agree.",
                ref="DESIGN.md §5 C06"),
    "C07": dict(technique="guard pages + exact-window canaries + read-only/shadowed inputs around every native call, register-sentinel trampolines (SysV and Win64) for every assembly entry point, ASan+UBSan builds, valgrind memcheck (<= AVX2), Miri on the Rust intrinsics and API histories; asynchronous-signal storm on the running stack (red-zone / below-rsp discipline); keys and contexts at every address alignment",
                text="The C05 kernel sweep and the C06 API histories are re-executed with every pointer argument flush against an inaccessible page (either side) or misaligned inside a canary field; faults, canary damage, modified inputs, clobbered callee-saved registers/rsp/DF and tool reports attributed to BLAKE3 frames are violations.",
                ref="DESIGN.md §5 C07"),
})

CHECKS.update({
    "C11": dict(technique="fault-injecting Read implementations (short reads, Interrupted, hard errors, early EOF) with a model of the script as oracle; file lattice around the mmap threshold with three-way agreement + specmodel; special paths incl. a loop block device and FIFO reads interrupted by real signals (no SA_RESTART); sparse files beyond 2^31 / 2^32 bytes; strace evidence of the path taken",
                text="Scripted readers and real files drive update_reader/update_mmap/update_mmap_rayon/Write; result kind, bytes absorbed before an error, absence of polls after the terminator and the final hash are compared with the model.",
                ref="DESIGN.md §5 C11"),
    "C14": dict(technique="decomposed enumeration of the Hash value space (every byte value at every position, all single-bit neighbours), exhaustive enumeration of hex-string mutations and lengths, multi-lane cancelling differences, serde JSON/CBOR and a length-prefixed non-self-describing binary format, byte-level oracle",
                text="All conversions and the three equality impls are checked against byte-level definitions; the finite hex-mutation and length spaces are enumerated completely.",
                ref="DESIGN.md §5 C14"),
    "C15": dict(technique="reference_impl histories vs specmodel and the optimized crate; exhaustive recomputation of every field of test_vectors.json by specmodel and, independently, by pyspec",
                text="reference_impl::Hasher is driven with hostile update splits and output lengths; the JSON file is a finite space and is checked completely by two independent models.",
                ref="DESIGN.md §5 C15"),
    "C16": dict(technique="twin-execution monitor: histories through every RustCrypto trait method interleaved with inherent calls, outputs and post-state vs specmodel; HMAC from the definition; guts API vs specmodel chunk/parent nodes",
                text="After every trait call the instance must behave like a hasher of the model's bytes (resetting variants included); guts::ChunkState/parent_cv are compared with the model for all counter classes and lengths.",
                ref="DESIGN.md §5 C16"),
    "C17": dict(technique="non-interference monitor over Debug output (two secret assignments per public history) + post-zeroize residue scan of raw object bytes against every secret-derived value computed by specmodel, and a libc free() interposer that scans the heap block of a boxed, zeroized and dropped object as the allocator receives it (wipes removed as dead stores), with positive controls",
                text="Debug strings must be a function of public data only; after zeroize() no 8-byte window of key, chaining-value, buffered-input or output data may remain anywhere in the object's memory.",
                ref="DESIGN.md §5 C17"),
})

CHECKS.update({
    "C04": dict(technique="configuration-matrix monitor: the C01/C02/C03/C09 reference-model monitors re-executed in every cell of {asm, prefer_intrinsics, pure} x forced {portable, SSE2, SSE4.1, AVX2, AVX-512} (hook H1) x {full, default, no-default features} x {debug, release}; thorough tier cross-checks the hook against the stock no_* feature builds",
                text="Every cell is compared with the same independent model, so agreement is N-way; evidence lists per cell the platform Platform::detect() reported and the build-script cfgs.",
                ref="DESIGN.md §5 C04"),
    "C08": dict(technique="twin-execution monitor under scripted and real schedulers: hook H2 ScriptedJoin (per-split left-first/right-first/threads, injected delays, exhaustive 3^k assignments for small trees), real rayon pools 1..16, C TBB link seam implemented with scripted pthreads; ThreadSanitizer on Rust (-Zbuild-std) and C; Miri with tree borrows and per-shard scheduler seeds; update_rayon over inputs beyond 2^31 / 2^32 bytes; the file battery of C11 for update_mmap_rayon (incl. reads interrupted by real signals)",
                text="Serial and parallel hashers fed the same bytes must agree on every observation and with specmodel; the event log yields distinct schedule signatures and true-overlap counts; race detectors watch the same workloads.",
                ref="DESIGN.md §5 C08",
                note=BASE_NOTE + " c/blake3_tbb.cpp itself cannot be compiled here (oneTBB absent): the property is decided for blake3.c's side of the seam and the seam's contract."),
    "C12": dict(technique="black-box CLI monitor on the real b3sum binary (built from the unmodified main.rs) with pyspec as oracle: hashing invocations over flag combinations, --check invocations against a model of generated checkfiles (report lines, failure count, exit status); FIFO / sysfs / standard input at a non-zero file offset; 4095-byte all-escaped paths",
                text="Thousands of invocations; stdout is compared byte for byte with the model's S[seek..seek+length]; for --check the expected OK/FAILED lines in order, the failure count and exit status 0 iff no bad entry.",
                ref="DESIGN.md §5 C12"),
    "C13": dict(technique="in-process monitors over the real parse_check_line/filepath_to_string (include! of the unmodified source): every single-character and byte-length-preserving mutation of valid lines + random lines against an existential reference parser; round trip and injectivity over hostile OS path bytes; end to end through the real binary with hostile file names, separators at every offset and 4095-byte all-escaped paths",
                text="A parse result must be one of the decompositions the documented format allows, never a panic; printed lines of representable paths must parse back to the same bytes and hash, unrepresentable paths must be rejected, no two paths may collide.",
                ref="DESIGN.md §5 C13"),
    "C18": dict(technique="fresh-process barrier workloads: N threads (2..64) whose first calls race on CPU-feature detection, per-thread forced platforms (thread-local hook), every result vs specmodel; pool-task schedule (hashers driven from tasks of one Rayon pool) with a /proc futex-census deadlock certificate; C threaded executor against libblake3.so (incl. histories opening with 1-20 MiB updates) with a writable-segment diff monitor; ThreadSanitizer (Rust and C) and Miri with scheduler seeds",
                text="Each thread's histories must give exactly the results they give alone; the only bytes of the C library's writable segments that may change are the detection cache.",
                ref="DESIGN.md §5 C18"),
})

NOT_YET = {}

def main():
    import props
    checks = []
    for pid in sorted(props.PROPS):
        c = CHECKS[pid]
        checks.append({
            "property_id": pid,
            "quick_cmd": "./check %s --tier quick" % pid,
            "thorough_cmd": "./check %s --tier thorough" % pid,
            "evidence_file": "/verif/evidence/%s.json" % pid,
            "replay_cmd_template": "./check %s --replay {path}" % pid,
            "engine": "check",
            "level_claimed": {"category": "exploration", "text": c["text"], "design_ref": c["ref"]},
            "level_note": c.get("note", BASE_NOTE),
            "technique": c["technique"],
        })
    allp = [json.loads(l)["id"] for l in open(os.path.join(HERE, "properties.jsonl"))]
    na = [{"property_id": p, "reason": NOT_YET.get(p, "check not built yet in this session (work in progress; see DESIGN.md for the planned monitor)")}
          for p in allp if p not in props.PROPS]
    hooks = [l.strip() for l in os.popen("git -C /repo log --format=%H --grep='^hook(' ").read().split()]
    m = {
        "version": 1,
        "setup_cmd": "./check setup",
        "hooks": {
            "guard": "blake3_team_blake3_verif",
            "enable": "RUSTFLAGS=\"--cfg blake3_team_blake3_verif\" (set by ./check for every cargo build of the harness; the C library needs no hook)",
            "baseline_off_cmd": "cd /repo && cargo nextest run --workspace --no-fail-fast --tool-config-file pb:/w/lib/nextest.toml --profile pb --test-threads 8 --offline || cargo test --workspace --no-fail-fast --offline",
            "source_commits": hooks,
            "add_only": True,
        },
        "engines": [{"name": "check", "path": "/verif/check", "serves_properties": sorted(props.PROPS),
                     "kind_free_text": "python driver; builds harness/ (Rust monitors linked against /repo) and cdrv/ (C driver), runs monitors and sanitizer/Miri/valgrind tools, applies three-valued verdicts"}],
        "checks": checks,
        "not_applicable": na,
        "notes": "Technique family: runtime monitoring and sanitizers. See DESIGN.md. known_findings.json lists fixed/known findings.",
    }
    json.dump(m, open(os.path.join(HERE, "MANIFEST.json"), "w"), indent=1)
    print("MANIFEST.json written:", len(checks), "checks,", len(na), "not_applicable")

main()
