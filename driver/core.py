"""Core of the check driver: builds from /repo's working tree with hooks on, runs monitors,
applies the verdict discipline (three-valued, known findings keyed on exact signatures),
writes evidence/<id>.json and replay files."""
import concurrent.futures
import hashlib
import json
import os
import re
import shutil
import subprocess
import sys
import tempfile
import threading
import time

VERIF = os.path.dirname(os.path.dirname(os.path.abspath(__file__)))
REPO = "/repo"
HARNESS = os.path.join(VERIF, "harness")
TARGET = os.path.join(HARNESS, "target")
EVIDENCE = os.path.join(VERIF, "evidence")
REPLAYS = os.path.join(VERIF, "replays")
GUARD = "blake3_team_blake3_verif"
NCPU = os.cpu_count() or 4


class HarnessError(Exception):
    pass


def env_base():
    e = dict(os.environ)
    e["CARGO_NET_OFFLINE"] = "true"
    e.pop("RUSTFLAGS", None)
    e.pop("CARGO_TARGET_DIR", None)
    e.pop("CARGO_BUILD_TARGET_DIR", None)
    return e


def run(cmd, cwd=None, env=None, timeout=None, input_bytes=None):
    """Run a command; returns (rc, stdout+stderr text, timed_out)."""
    try:
        p = subprocess.run(cmd, cwd=cwd, env=env or env_base(), stdout=subprocess.PIPE, stderr=subprocess.STDOUT,
                           timeout=timeout, input=input_bytes)
        return p.returncode, p.stdout.decode("utf-8", "replace"), False
    except subprocess.TimeoutExpired as ex:
        out = ex.stdout.decode("utf-8", "replace") if ex.stdout else ""
        return -999, out, True


# --------------------------------------------------------------------------------------------
# Builds
# --------------------------------------------------------------------------------------------
# flavour -> (cargo feature arguments for package `mon`)
FLAVOURS = {
    "asm": ["--features", "full"],
    "intr": ["--features", "full,intr"],
    "pure": ["--features", "full,pure"],
    "asm-std": ["--no-default-features", "--features", "std"],
    "asm-nostd": ["--no-default-features"],
    "intr-nostd": ["--no-default-features", "--features", "intr"],
    "pure-nostd": ["--no-default-features", "--features", "pure"],
}
for _fl in ("asm", "intr", "pure"):
    _acc = []
    for _no in ("no_avx512", "no_avx2", "no_sse41", "no_sse2"):
        _acc.append(_no)
        extra = "," + _fl if _fl != "asm" else ""
        FLAVOURS["%s-stock-%s" % (_fl, _no)] = ["--features", "full%s,%s" % (extra, ",".join(_acc))]

_build_lock = threading.Lock()
_built = {}


def cargo_build(flavour, profile="debug", package="mon", extra_rustflags="", toolchain=None, extra_args=None,
                target_subdir=None, env_extra=None):
    """Build `package` of the harness workspace for a flavour/profile from /repo's current
    working tree with the hook cfg on. Returns the path of the binary."""
    key = (flavour, profile, package, extra_rustflags, toolchain, tuple(extra_args or []))
    with _build_lock:
        if key in _built:
            return _built[key]
    tdir = os.path.join(TARGET, target_subdir or flavour)
    cmd = ["cargo"]
    if toolchain:
        cmd.append("+" + toolchain)
    cmd += ["build", "--offline", "-p", package, "--target-dir", tdir]
    if profile == "release":
        cmd.append("--release")
    cmd += FLAVOURS.get(flavour, [])
    cmd += list(extra_args or [])
    env = env_base()
    env["RUSTFLAGS"] = ("--cfg %s %s" % (GUARD, extra_rustflags)).strip()
    if env_extra:
        env.update(env_extra)
    t0 = time.time()
    rc, out, to = run(cmd, cwd=HARNESS, env=env, timeout=1800)
    if rc != 0:
        raise HarnessError("build failed (%s %s %s): %s" % (flavour, profile, package, out[-3000:]))
    sub = "release" if profile == "release" else "debug"
    triple = None
    if extra_args and "--target" in extra_args:
        triple = extra_args[extra_args.index("--target") + 1]
    path = os.path.join(tdir, triple, sub, package) if triple else os.path.join(tdir, sub, package)
    if not os.path.exists(path):
        raise HarnessError("built binary missing: " + path)
    with _build_lock:
        _built[key] = path
    return path


def build_cfgs(flavour, profile="debug"):
    """The blake3_* cfgs the build script of the crate under test emitted (evidence)."""
    tdir = os.path.join(TARGET, flavour, "release" if profile == "release" else "debug", "build")
    cfgs = set()
    if os.path.isdir(tdir):
        for d in os.listdir(tdir):
            if d.startswith("blake3-"):
                f = os.path.join(tdir, d, "output")
                if os.path.exists(f):
                    for line in open(f, errors="replace"):
                        m = re.match(r"cargo::?rustc-cfg=(\S+)", line.strip())
                        if m:
                            cfgs.add(m.group(1))
    return sorted(cfgs)


# --------------------------------------------------------------------------------------------
# Oracle self-test
# --------------------------------------------------------------------------------------------
def oracle_selftest(seed):
    sys.path.insert(0, os.path.join(VERIF, "pyspec"))
    import b3spec
    try:
        b3spec.selftest()
    except SystemExit as e:
        print("ORACLE-SELFTEST-FAILED pyspec anchors: %s" % e)
        raise HarnessError("pyspec anchors")
    mon = cargo_build("asm", "debug")
    rc, out, to = run([mon, "xcheck", "--seed", str(seed)], timeout=600)
    if rc != 0:
        print("ORACLE-SELFTEST-FAILED specmodel: %s" % out[-500:])
        raise HarnessError("specmodel selftest")
    n = 0
    for line in out.splitlines():
        parts = line.split()
        if len(parts) != 9:
            continue
        mode, keyhex, ctxhex, first, seek, length, kind, datahex, want = parts
        key = bytes.fromhex(keyhex) if keyhex != "-" else None
        ctx = bytes.fromhex(ctxhex) if ctxhex != "-" else b""
        data = bytes.fromhex(datahex) if datahex != "-" else b""
        k, f = b3spec.mode_key_flags(mode, key, ctx)
        node = b3spec.subtree(k, f, data, int(first))
        got = node.root_bytes(int(seek), int(length)).hex() if kind == "root" else b3spec._bytes(node.cv()).hex()
        if got != want:
            print("ORACLE-SELFTEST-FAILED specmodel and pyspec disagree on: %s" % line[:200])
            raise HarnessError("oracle disagreement")
        n += 1
    if n < 20:
        raise HarnessError("oracle cross-check observed only %d cases" % n)
    return n


# --------------------------------------------------------------------------------------------
# Known findings
# --------------------------------------------------------------------------------------------
def load_known():
    p = os.path.join(VERIF, "known_findings.json")
    if not os.path.exists(p):
        return {}
    data = json.load(open(p))
    known = {}
    for f in data.get("findings", []):
        known[(f["property"], f["signature"])] = f.get("what", "")
    return known


# --------------------------------------------------------------------------------------------
# Check context
# --------------------------------------------------------------------------------------------
class Ctx:
    def __init__(self, pid, tier, seed):
        self.pid = pid
        self.tier = tier if tier in ("quick", "thorough") else "quick"
        self.seed = seed
        self.t0 = time.time()
        self.evaluations = 0
        self.distinct = 0
        self.samples = []
        self.violations = []  # dicts: sig, detail, replay (dict)
        self.steps = []
        self.inconclusive = []
        self.rules = []
        self.observations = {}
        self.assumptions = []
        self.lock = threading.Lock()
        self.thorough = self.tier == "thorough"

    # ---- running Rust monitors ----------------------------------------------------------
    def mon(self, name, flavour, profile, args, timeout=3600, must_observe=True, binary=None, env_extra=None, wrapper=None):
        """Run one `mon` step and fold its report into the context."""
        exe = binary or cargo_build(flavour, profile)
        fd, outp = tempfile.mkstemp(prefix="verif-rep-", suffix=".json")
        os.close(fd)
        full = list(wrapper or []) + [exe] + list(args) + ["--seed", str(self.seed), "--tier", self.tier, "--out", outp]
        env = env_base()
        if env_extra:
            env.update(env_extra)
        t0 = time.time()
        rc, out, to = run(full, env=env, timeout=timeout)
        wall = time.time() - t0
        step = {"step": name, "flavour": flavour, "profile": profile, "args": " ".join(args), "wall_s": round(wall, 2), "rc": rc}
        try:
            if to:
                self.note_inconclusive("%s: watchdog fired after %ds" % (name, timeout))
                step["verdict"] = "inconclusive"
                return None
            if rc == 77:
                m = re.search(r"CRASH signal=(\d+) addr=(0x[0-9a-f]+) case=(\d+) plat=(\d+) phase=(\d+)", out)
                if m:
                    sig, addr, case, plat, phase = m.groups()
                    platname = ["native", "portable", "sse2", "sse41", "avx2", "avx512"][int(plat)] if int(plat) < 6 else "native"
                    rargs = list(args) + ["--only", case, "--platforms", platname]
                    self.add_violation("%s/%s/fatal-signal-%s" % (self.pid, args[0], sig),
                                       "fatal signal %s at address %s while case %s (platform %s) was in flight" % (sig, addr, case, platname),
                                       {"kind": "mon", "flavour": flavour, "profile": profile, "args": rargs, "seed": self.seed, "tier": self.tier})
                    step["verdict"] = "violated"
                    return None
                raise HarnessError("%s: exit 77 without CRASH line: %s" % (name, out[-500:]))
            if rc == 3 or "ORACLE-SELFTEST-FAILED" in out:
                print(out[-500:])
                raise HarnessError("%s: oracle self-test failed inside monitor" % name)
            if rc != 0:
                raise HarnessError("%s: monitor exited %s: %s" % (name, rc, out[-1500:]))
            try:
                rep = json.load(open(outp))
            except Exception as e:
                raise HarnessError("%s: unreadable report: %s" % (name, e))
            self.fold(name, flavour, profile, rep, must_observe)
            step["evaluations"] = rep["evaluations"]
            step["verdict"] = "violated" if rep["violations"] else "held"
            return rep
        finally:
            self.steps.append(step)
            try:
                os.unlink(outp)
            except OSError:
                pass

    def fold(self, name, flavour, profile, rep, must_observe=True):
        with self.lock:
            self.evaluations += rep["evaluations"]
            self.distinct += rep["distinct_nontrivial"]
            for s in rep["samples"][:3]:
                if len(self.samples) < 12:
                    self.samples.append({"step": name, "case": s})
            if rep.get("rule") and rep["rule"] not in self.rules:
                self.rules.append(rep["rule"])
            obs = self.observations.setdefault(name, {})
            obs["counters"] = rep.get("counters", {})
            obs["sets"] = rep.get("sets", {})
            obs["evaluations"] = rep["evaluations"]
            obs["distinct"] = rep["distinct_nontrivial"]
            for inc in rep.get("inconclusive", []):
                self.inconclusive.append("%s: %s" % (name, inc))
            if rep.get("counters", {}).get("harness_panics", 0) > 0:
                raise HarnessError("%s: %d harness panics (monitor bug): %s" % (name, rep["counters"]["harness_panics"], rep.get("inconclusive", [])[:3]))
            for v in rep["violations"]:
                self.violations.append({"sig": v["sig"], "detail": v["detail"],
                                        "replay": {"kind": "mon", "flavour": flavour, "profile": profile, "args": v["replay_args"], "seed": self.seed, "tier": self.tier}})
            if must_observe and rep["evaluations"] == 0:
                raise HarnessError("%s observed nothing" % name)

    def add_violation(self, sig, detail, replay):
        with self.lock:
            self.violations.append({"sig": sig, "detail": detail, "replay": replay})

    def add_observed(self, name, evaluations, distinct, samples=None, rule=None, obs=None):
        with self.lock:
            self.evaluations += evaluations
            self.distinct += distinct
            for s in (samples or [])[:3]:
                if len(self.samples) < 12:
                    self.samples.append({"step": name, "case": s})
            if rule and rule not in self.rules:
                self.rules.append(rule)
            if obs is not None:
                self.observations[name] = obs
            self.steps.append({"step": name, "evaluations": evaluations, "verdict": "held"})

    def note_inconclusive(self, msg):
        with self.lock:
            self.inconclusive.append(msg)

    def parallel(self, thunks, workers=None):
        """Run thunks concurrently; re-raise the first HarnessError."""
        with concurrent.futures.ThreadPoolExecutor(max_workers=workers or len(thunks)) as ex:
            futs = [ex.submit(t) for t in thunks]
            errs = []
            for f in futs:
                try:
                    f.result()
                except HarnessError as e:
                    errs.append(e)
            if errs:
                raise errs[0]

    # ---- verdict ------------------------------------------------------------------------
    def write_evidence(self, harness_error=None, nviol=0, known_hits=None):
        os.makedirs(EVIDENCE, exist_ok=True)
        cov = {
            "evaluations": int(self.evaluations),
            "distinct_nontrivial": int(self.distinct),
            "rule": " || ".join(self.rules) if self.rules else "see steps",
            "samples": self.samples if self.samples else [{"note": "no sample recorded"}],
            "steps": self.steps,
            "observations": self.observations,
            "inconclusive": self.inconclusive,
            "known_findings_hit": known_hits or [],
        }
        if harness_error:
            cov["harness_error"] = harness_error
        ev = {
            "property_id": self.pid,
            "tier": self.tier,
            "seed": int(self.seed),
            "level": "exploration",
            "coverage": cov,
            "assumptions": self.assumptions or ["specmodel + pyspec (from-the-paper models, cross-checked each run) are the oracle",
                                                "only executions actually produced are covered"],
            "wall_s": round(time.time() - self.t0, 2),
            "violations": int(nviol),
        }
        tmp = os.path.join(EVIDENCE, ".%s.json.tmp" % self.pid)
        with open(tmp, "w") as f:
            json.dump(ev, f, indent=1, sort_keys=True)
        os.replace(tmp, os.path.join(EVIDENCE, "%s.json" % self.pid))

    def finish(self):
        known = load_known()
        os.makedirs(REPLAYS, exist_ok=True)
        real = []
        known_hits = {}
        for v in self.violations:
            k = (self.pid, v["sig"])
            if k in known:
                known_hits.setdefault(v["sig"], known[k])
            else:
                real.append(v)
        for sig, what in sorted(known_hits.items()):
            print("KNOWN-FINDING: property=%s %s [%s]" % (self.pid, what, sig))
        # one VIOLATION line per distinct signature (first witness each)
        seen = set()
        n = 0
        for v in real:
            if v["sig"] in seen:
                continue
            seen.add(v["sig"])
            n += 1
            path = os.path.join(REPLAYS, "%s-%d-%d.json" % (self.pid, self.seed, n))
            with open(path, "w") as f:
                json.dump({"property": self.pid, "signature": v["sig"], "detail": v["detail"], "replay": v["replay"]}, f, indent=1)
            print("VIOLATION property=%s replay=%s" % (self.pid, path))
            print("  signature: %s" % v["sig"])
            print("  detail: %s" % v["detail"][:1500])
        self.write_evidence(nviol=len(real), known_hits=sorted(known_hits))
        if real:
            return 1
        if self.evaluations == 0:
            print("HARNESS-ERROR property=%s nothing observed" % self.pid)
            return 3
        print("OK property=%s tier=%s seed=%d evaluations=%d distinct=%d inconclusive=%d wall=%.1fs" % (
            self.pid, self.tier, self.seed, self.evaluations, self.distinct, len(self.inconclusive), time.time() - self.t0))
        return 0


# --------------------------------------------------------------------------------------------
# Replay
# --------------------------------------------------------------------------------------------
def replay(ctx, path):
    rec = json.load(open(path))
    r = rec["replay"]
    ctx.seed = int(r.get("seed", ctx.seed))
    ctx.tier = r.get("tier", ctx.tier)
    if r["kind"] == "mon":
        args = list(r["args"])
        # strip seed/tier/out: ctx.mon re-adds them
        clean = []
        i = 0
        while i < len(args):
            if args[i] in ("--seed", "--tier", "--out"):
                i += 2
                continue
            clean.append(args[i])
            i += 1
        ctx.mon("replay", r["flavour"], r["profile"], clean, must_observe=False)
    elif r["kind"] == "cmd":
        rc, out, to = run(r["cmd"], cwd=r.get("cwd", VERIF), timeout=3600)
        print(out[-3000:])
        if rc != 0:
            ctx.add_violation(rec["signature"], "replayed command exited %s" % rc, r)
        ctx.evaluations += 1
    else:
        import props
        props.replay_special(ctx, rec)
    ctx.evaluations = max(ctx.evaluations, 1)
    ctx.distinct = max(ctx.distinct, 1)
    known = load_known()
    real = [v for v in ctx.violations if (ctx.pid, v["sig"]) not in known]
    for v in ctx.violations:
        print("REPLAYED %s: %s" % (v["sig"], v["detail"][:1500]))
    if real:
        print("VIOLATION property=%s replay=%s" % (ctx.pid, path))
        return 1
    print("replay: no violation reproduced")
    return 0
