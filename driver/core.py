"""Core of the check driver: builds from /repo's working tree with hooks on, runs monitors,
applies the verdict discipline (three-valued, known findings keyed on exact signatures),
writes evidence/<id>.json and replay files."""
import concurrent.futures
import hashlib
import json
import os
import re
import shutil
import subprocess
import sys
import tempfile
import threading
import time

VERIF = os.path.dirname(os.path.dirname(os.path.abspath(__file__)))
REPO = "/repo"
HARNESS = os.path.join(VERIF, "harness")
TARGET = os.path.join(HARNESS, "target")
EVIDENCE = os.path.join(VERIF, "evidence")
REPLAYS = os.path.join(VERIF, "replays")
GUARD = "blake3_team_blake3_verif"
NCPU = os.cpu_count() or 4


class HarnessError(Exception):
    pass


def env_base():
    e = dict(os.environ)
    e["CARGO_NET_OFFLINE"] = "true"
    e.pop("RUSTFLAGS", None)
    e.pop("CARGO_TARGET_DIR", None)
    e.pop("CARGO_BUILD_TARGET_DIR", None)
    return e


def run(cmd, cwd=None, env=None, timeout=None, input_bytes=None):
    """Run a command; returns (rc, stdout+stderr text, timed_out)."""
    try:
        p = subprocess.run(cmd, cwd=cwd, env=env or env_base(), stdout=subprocess.PIPE, stderr=subprocess.STDOUT,
                           timeout=timeout, input=input_bytes)
        return p.returncode, p.stdout.decode("utf-8", "replace"), False
    except subprocess.TimeoutExpired as ex:
        out = ex.stdout.decode("utf-8", "replace") if ex.stdout else ""
        return -999, out, True


# --------------------------------------------------------------------------------------------
# Builds
# --------------------------------------------------------------------------------------------
# flavour -> (cargo feature arguments for package `mon`)
FLAVOURS = {
    "asm": ["--features", "full"],
    "intr": ["--features", "full,intr"],
    "pure": ["--features", "full,pure"],
    "asm-std": ["--no-default-features", "--features", "std"],
    "asm-nostd": ["--no-default-features"],
    "intr-nostd": ["--no-default-features", "--features", "intr"],
    "pure-nostd": ["--no-default-features", "--features", "pure"],
}
for _fl in ("asm", "intr", "pure"):
    _acc = []
    for _no in ("no_avx512", "no_avx2", "no_sse41", "no_sse2"):
        _acc.append(_no)
        extra = "," + _fl if _fl != "asm" else ""
        FLAVOURS["%s-stock-%s" % (_fl, _no)] = ["--features", "full%s,%s" % (extra, ",".join(_acc))]

_build_lock = threading.Lock()
_built = {}


def cargo_build(flavour, profile="debug", package="mon", extra_rustflags="", toolchain=None, extra_args=None,
                target_subdir=None, env_extra=None, binname=None, features=None):
    """Build `package` of the harness workspace for a flavour/profile from /repo's current
    working tree with the hook cfg on. Returns the path of the binary."""
    key = (flavour, profile, package, extra_rustflags, toolchain, tuple(extra_args or []), tuple(features or []))
    with _build_lock:
        if key in _built:
            return _built[key]
    tdir = os.path.join(TARGET, target_subdir or flavour)
    cmd = ["cargo"]
    if toolchain:
        cmd.append("+" + toolchain)
    cmd += ["build", "--offline", "-p", package, "--target-dir", tdir]
    if profile == "release":
        cmd.append("--release")
    cmd += (FLAVOURS.get(flavour, []) if features is None else list(features))
    cmd += list(extra_args or [])
    env = env_base()
    env["RUSTFLAGS"] = ("--cfg %s %s" % (GUARD, extra_rustflags)).strip()
    if env_extra:
        env.update(env_extra)
    t0 = time.time()
    rc, out, to = run(cmd, cwd=HARNESS, env=env, timeout=1800)
    if rc != 0:
        raise HarnessError("build failed (%s %s %s): %s" % (flavour, profile, package, out[-3000:]))
    sub = "release" if profile == "release" else "debug"
    triple = None
    if extra_args and "--target" in extra_args:
        triple = extra_args[extra_args.index("--target") + 1]
    path = os.path.join(tdir, triple, sub, binname or package) if triple else os.path.join(tdir, sub, binname or package)
    if not os.path.exists(path):
        raise HarnessError("built binary missing: " + path)
    with _build_lock:
        _built[key] = path
    return path


def build_cfgs(flavour, profile="debug"):
    """The blake3_* cfgs the build script of the crate under test emitted (evidence)."""
    tdir = os.path.join(TARGET, flavour, "release" if profile == "release" else "debug", "build")
    cfgs = set()
    if os.path.isdir(tdir):
        for d in os.listdir(tdir):
            if d.startswith("blake3-"):
                f = os.path.join(tdir, d, "output")
                if os.path.exists(f):
                    for line in open(f, errors="replace"):
                        m = re.match(r"cargo::?rustc-cfg=(\S+)", line.strip())
                        if m:
                            cfgs.add(m.group(1))
    return sorted(cfgs)


# --------------------------------------------------------------------------------------------
# Oracle self-test
# --------------------------------------------------------------------------------------------
def oracle_selftest(seed):
    sys.path.insert(0, os.path.join(VERIF, "pyspec"))
    import b3spec
    try:
        b3spec.selftest()
    except SystemExit as e:
        print("ORACLE-SELFTEST-FAILED pyspec anchors: %s" % e)
        raise HarnessError("pyspec anchors")
    mon = cargo_build("asm", "debug")
    rc, out, to = run([mon, "xcheck", "--seed", str(seed)], timeout=600)
    if rc != 0:
        print("ORACLE-SELFTEST-FAILED specmodel: %s" % out[-500:])
        raise HarnessError("specmodel selftest")
    n = 0
    for line in out.splitlines():
        parts = line.split()
        if len(parts) != 9:
            continue
        mode, keyhex, ctxhex, first, seek, length, kind, datahex, want = parts
        key = bytes.fromhex(keyhex) if keyhex != "-" else None
        ctx = bytes.fromhex(ctxhex) if ctxhex != "-" else b""
        data = bytes.fromhex(datahex) if datahex != "-" else b""
        k, f = b3spec.mode_key_flags(mode, key, ctx)
        node = b3spec.subtree(k, f, data, int(first))
        got = node.root_bytes(int(seek), int(length)).hex() if kind == "root" else b3spec._bytes(node.cv()).hex()
        if got != want:
            print("ORACLE-SELFTEST-FAILED specmodel and pyspec disagree on: %s" % line[:200])
            raise HarnessError("oracle disagreement")
        n += 1
    if n < 20:
        raise HarnessError("oracle cross-check observed only %d cases" % n)
    return n


# --------------------------------------------------------------------------------------------
# Known findings
# --------------------------------------------------------------------------------------------
def load_known():
    p = os.path.join(VERIF, "known_findings.json")
    if not os.path.exists(p):
        return {}
    data = json.load(open(p))
    known = {}
    for f in data.get("findings", []):
        known[(f["property"], f["signature"])] = f.get("what", "")
    return known


# --------------------------------------------------------------------------------------------
# Check context
# --------------------------------------------------------------------------------------------
class Ctx:
    def __init__(self, pid, tier, seed):
        self.pid = pid
        self.tier = tier if tier in ("quick", "thorough") else "quick"
        self.seed = seed
        self.t0 = time.time()
        self.evaluations = 0
        self.distinct = 0
        self.samples = []
        self.violations = []  # dicts: sig, detail, replay (dict)
        self.steps = []
        self.inconclusive = []
        self.rules = []
        self.observations = {}
        self.assumptions = []
        self.lock = threading.Lock()
        self.thorough = self.tier == "thorough"

    # ---- running Rust monitors ----------------------------------------------------------
    def mon(self, name, flavour, profile, args, timeout=3600, must_observe=True, binary=None, env_extra=None, wrapper=None, adopt=None):
        """Run one `mon` step and fold its report into the context."""
        exe = binary or cargo_build(flavour, profile)
        fd, outp = tempfile.mkstemp(prefix="verif-rep-", suffix=".json")
        os.close(fd)
        full = list(wrapper or []) + [exe] + list(args) + ["--seed", str(self.seed), "--tier", self.tier, "--out", outp]
        env = env_base()
        if env_extra:
            env.update(env_extra)
        t0 = time.time()
        rc, out, to = run(full, env=env, timeout=timeout)
        wall = time.time() - t0
        step = {"step": name, "flavour": flavour, "profile": profile, "args": " ".join(args), "wall_s": round(wall, 2), "rc": rc}
        try:
            if to:
                self.note_inconclusive("%s: watchdog fired after %ds" % (name, timeout))
                step["verdict"] = "inconclusive"
                return None
            if rc == 77:
                m = re.search(r"CRASH signal=(\d+) addr=(0x[0-9a-f]+) case=(\d+) plat=(\d+) phase=(\d+)", out)
                if m:
                    sig, addr, case, plat, phase = m.groups()
                    platname = ["native", "portable", "sse2", "sse41", "avx2", "avx512"][int(plat)] if int(plat) < 6 else "native"
                    rargs = list(args) + ["--only", case, "--platforms", platname]
                    owner = "C07" if (args[0] in ("kern", "probes") or "--guard" in args) else self.pid
                    if self.pid == "C05" and args[0] == "kern":
                        owner = "C05"  # a kernel that dies yields no result either
                    self.add_violation("%s/%s/fatal-signal-%s" % (owner, args[0], sig),
                                       "fatal signal %s at address %s while case %s (platform %s) was in flight" % (sig, addr, case, platname),
                                       {"kind": "mon", "flavour": flavour, "profile": profile, "args": rargs, "seed": self.seed, "tier": self.tier})
                    step["verdict"] = "violated"
                    return None
                raise HarnessError("%s: exit 77 without CRASH line: %s" % (name, out[-500:]))
            if rc == 3 or "ORACLE-SELFTEST-FAILED" in out:
                print(out[-500:])
                raise HarnessError("%s: oracle self-test failed inside monitor" % name)
            if rc != 0:
                raise HarnessError("%s: monitor exited %s: %s" % (name, rc, out[-1500:]))
            try:
                rep = json.load(open(outp))
            except Exception as e:
                raise HarnessError("%s: unreadable report: %s" % (name, e))
            self.fold(name, flavour, profile, rep, must_observe, adopt=adopt)
            step["evaluations"] = rep["evaluations"]
            step["verdict"] = "violated" if rep["violations"] else "held"
            return rep
        finally:
            self.steps.append(step)
            try:
                os.unlink(outp)
            except OSError:
                pass

    def mon_sharded(self, name, flavour, profile, args, shards=None, **kw):
        """Run a monitor as `shards` single-threaded processes (arena-heavy monitors: mprotect
        on many threads of one process contends on the address-space lock)."""
        shards = shards or min(NCPU, 16)
        cargo_build(flavour, profile) if not kw.get("binary") else None
        self.parallel([(lambda i=i: self.mon("%s#%d" % (name, i), flavour, profile,
                                             list(args) + ["--threads", "1", "--shard", str(i), "--shards", str(shards)], **kw))
                       for i in range(shards)], workers=shards)

    def fold(self, name, flavour, profile, rep, must_observe=True, adopt=None):
        """adopt: None, or a predicate over signatures of *other* properties' monitors whose
        violations count for this property (e.g. C04 re-runs the C01/C02/C03/C09 monitors in every
        configuration cell: any disagreement with the model there is a C04 violation)."""
        with self.lock:
            self.evaluations += rep["evaluations"]
            self.distinct += rep["distinct_nontrivial"]
            for s in rep["samples"][:3]:
                if len(self.samples) < 12:
                    self.samples.append({"step": name, "case": s})
            if rep.get("rule") and rep["rule"] not in self.rules:
                self.rules.append(rep["rule"])
            obs = self.observations.setdefault(name, {})
            obs["counters"] = rep.get("counters", {})
            obs["sets"] = rep.get("sets", {})
            obs["evaluations"] = rep["evaluations"]
            obs["distinct"] = rep["distinct_nontrivial"]
            for inc in rep.get("inconclusive", []):
                self.inconclusive.append("%s: %s" % (name, inc))
            if rep.get("counters", {}).get("harness_panics", 0) > 0:
                raise HarnessError("%s: %d harness panics (monitor bug): %s" % (name, rep["counters"]["harness_panics"], rep.get("inconclusive", [])[:3]))
            for v in rep["violations"]:
                if not _own(self.pid, v["sig"]):
                    if adopt is not None and adopt(v["sig"]):
                        v = dict(v)
                        v["sig"] = "%s/via/%s" % (self.pid, v["sig"])
                        v["detail"] = "[%s] %s" % (name, v["detail"])
                    else:
                        other = self.observations.setdefault("signatures_of_other_properties_seen", {})
                        other[v["sig"]] = other.get(v["sig"], 0) + 1
                        continue
                self.violations.append({"sig": v["sig"], "detail": v["detail"],
                                        "replay": {"kind": "mon", "flavour": flavour, "profile": profile, "args": v["replay_args"], "seed": self.seed, "tier": self.tier}})
            if must_observe and rep["evaluations"] == 0:
                raise HarnessError("%s observed nothing" % name)

    def add_violation(self, sig, detail, replay):
        with self.lock:
            self.violations.append({"sig": sig, "detail": detail, "replay": replay})

    def add_observed(self, name, evaluations, distinct, samples=None, rule=None, obs=None):
        with self.lock:
            self.evaluations += evaluations
            self.distinct += distinct
            for s in (samples or [])[:3]:
                if len(self.samples) < 12:
                    self.samples.append({"step": name, "case": s})
            if rule and rule not in self.rules:
                self.rules.append(rule)
            if obs is not None:
                self.observations[name] = obs
            self.steps.append({"step": name, "evaluations": evaluations, "verdict": "held"})

    def note_inconclusive(self, msg):
        with self.lock:
            self.inconclusive.append(msg)

    def parallel(self, thunks, workers=None):
        """Run thunks concurrently; re-raise the first HarnessError."""
        with concurrent.futures.ThreadPoolExecutor(max_workers=workers or len(thunks)) as ex:
            futs = [ex.submit(t) for t in thunks]
            errs = []
            for f in futs:
                try:
                    f.result()
                except HarnessError as e:
                    errs.append(e)
            if errs:
                raise errs[0]

    # ---- verdict ------------------------------------------------------------------------
    def write_evidence(self, harness_error=None, nviol=0, known_hits=None):
        os.makedirs(EVIDENCE, exist_ok=True)
        cov = {
            "evaluations": int(self.evaluations),
            "distinct_nontrivial": int(self.distinct),
            "rule": " || ".join(self.rules) if self.rules else "see steps",
            "samples": self.samples if self.samples else [{"note": "no sample recorded"}],
            "steps": self.steps,
            "observations": self.observations,
            "inconclusive": self.inconclusive,
            "known_findings_hit": known_hits or [],
        }
        if harness_error:
            cov["harness_error"] = harness_error
        ev = {
            "property_id": self.pid,
            "tier": self.tier,
            "seed": int(self.seed),
            "level": "exploration",
            "coverage": cov,
            "assumptions": self.assumptions or ["specmodel + pyspec (from-the-paper models, cross-checked each run) are the oracle",
                                                "only executions actually produced are covered"],
            "wall_s": round(time.time() - self.t0, 2),
            "violations": int(nviol),
        }
        tmp = os.path.join(EVIDENCE, ".%s.json.tmp" % self.pid)
        with open(tmp, "w") as f:
            json.dump(ev, f, indent=1, sort_keys=True)
        os.replace(tmp, os.path.join(EVIDENCE, "%s.json" % self.pid))

    def finish(self):
        known = load_known()
        os.makedirs(REPLAYS, exist_ok=True)
        real = []
        known_hits = {}
        for v in self.violations:
            k = (self.pid, v["sig"])
            if k in known:
                known_hits.setdefault(v["sig"], known[k])
            else:
                real.append(v)
        for sig, what in sorted(known_hits.items()):
            print("KNOWN-FINDING: property=%s %s [%s]" % (self.pid, what, sig))
        # one VIOLATION line per distinct signature (first witness each)
        seen = set()
        n = 0
        for v in real:
            if v["sig"] in seen:
                continue
            seen.add(v["sig"])
            n += 1
            path = os.path.join(REPLAYS, "%s-%d-%d.json" % (self.pid, self.seed, n))
            with open(path, "w") as f:
                json.dump({"property": self.pid, "signature": v["sig"], "detail": v["detail"], "replay": v["replay"]}, f, indent=1)
            print("VIOLATION property=%s replay=%s" % (self.pid, path))
            print("  signature: %s" % v["sig"])
            print("  detail: %s" % v["detail"][:1500])
        self.write_evidence(nviol=len(real), known_hits=sorted(known_hits))
        if real:
            return 1
        if self.evaluations == 0:
            print("HARNESS-ERROR property=%s nothing observed" % self.pid)
            return 3
        print("OK property=%s tier=%s seed=%d evaluations=%d distinct=%d inconclusive=%d wall=%.1fs" % (
            self.pid, self.tier, self.seed, self.evaluations, self.distinct, len(self.inconclusive), time.time() - self.t0))
        return 0


# --------------------------------------------------------------------------------------------
# Replay
# --------------------------------------------------------------------------------------------
def replay(ctx, path):
    rec = json.load(open(path))
    r = rec["replay"]
    ctx.seed = int(r.get("seed", ctx.seed))
    ctx.tier = r.get("tier", ctx.tier)
    if r["kind"] == "mon":
        args = list(r["args"])
        # strip seed/tier/out: ctx.mon re-adds them
        clean = []
        i = 0
        while i < len(args):
            if args[i] in ("--seed", "--tier", "--out"):
                i += 2
                continue
            clean.append(args[i])
            i += 1
        ctx.mon("replay", r["flavour"], r["profile"], clean, must_observe=False)
    elif r["kind"] == "cmd":
        rc, out, to = run(r["cmd"], cwd=r.get("cwd", VERIF), timeout=3600)
        print(out[-3000:])
        if rc != 0:
            ctx.add_violation(rec["signature"], "replayed command exited %s" % rc, r)
        ctx.evaluations += 1
    elif r["kind"] == "miri":
        miri_run(ctx, "replay", r["args"], shards=1, flavour=r.get("flavour", "pure"), miriflags=r.get("miriflags", ""))
    elif r["kind"] == "cdrv":
        gen_extra = list(r.get("gen_extra") or []) + ["--only", str(r["idx"])]
        cdrv_run(ctx, "replay", r["variant"], r["san"], r["what"], scale=r.get("scale", 1.0), shards=1, gen_extra=gen_extra,
                 wrapper=r.get("wrapper"))
    else:
        import props
        props.replay_special(ctx, rec)
    ctx.evaluations = max(ctx.evaluations, 1)
    ctx.distinct = max(ctx.distinct, 1)
    known = load_known()
    real = [v for v in ctx.violations if (ctx.pid, v["sig"]) not in known]
    for v in ctx.violations:
        print("REPLAYED %s: %s" % (v["sig"], v["detail"][:1500]))
    if real:
        print("VIOLATION property=%s replay=%s" % (ctx.pid, path))
        return 1
    print("replay: no violation reproduced")
    return 0


# --------------------------------------------------------------------------------------------
# C driver runs (generator | cdrv), sharded over processes
# --------------------------------------------------------------------------------------------
def _own(pid, sig):
    return sig.startswith(pid + "/")


def cdrv_run(ctx, name, variant, san, what, scale=1.0, shards=None, gen_extra=None, wrapper=None, env_extra=None,
             exe=None, timeout=3600, trace=False, exe_args=None, adopt=None):
    """Run `mon gen-cscript ... | cdrv` in `shards` parallel pairs. Folds violations whose
    signature belongs to ctx.pid; signatures of other properties are only noted."""
    import cbuild
    mon = cargo_build("asm", "release")
    exe = exe or cbuild.build(variant, san)
    shards = shards or min(NCPU, 16)
    gen_extra = list(gen_extra or [])
    results = [None] * shards

    def one(i):
        gen_cmd = [mon, "gen-cscript", "--cvariant", variant, "--what", what, "--seed", str(ctx.seed), "--tier", ctx.tier,
                   "--scale", str(scale), "--shard", str(i), "--shards", str(shards)] + gen_extra
        env = env_base()
        if env_extra:
            env.update(env_extra)
        if trace:
            env["CDRV_TRACE"] = "1"
        t0 = time.time()
        g = subprocess.Popen(gen_cmd, stdout=subprocess.PIPE, stderr=subprocess.PIPE, env=env_base())
        xa = exe_args(i) if callable(exe_args) else list(exe_args or [])
        d = subprocess.Popen(list(wrapper or []) + [exe] + xa, stdin=g.stdout, stdout=subprocess.PIPE, stderr=subprocess.PIPE, env=env)
        g.stdout.close()
        try:
            out, err = d.communicate(timeout=timeout)
            gerr = g.stderr.read().decode("utf-8", "replace")
            g.wait(timeout=60)
            results[i] = (d.returncode, out.decode("utf-8", "replace"), err.decode("utf-8", "replace"), gerr, g.returncode, time.time() - t0)
        except subprocess.TimeoutExpired:
            d.kill()
            g.kill()
            results[i] = ("timeout", "", "", "", 0, time.time() - t0)

    with concurrent.futures.ThreadPoolExecutor(max_workers=shards) as ex:
        list(ex.map(one, range(shards)))

    records = 0
    distinct = 0
    kc = {}
    other = {}
    nviol = 0
    tool_reports = []
    samples = []
    for i, r in enumerate(results):
        rc, out, err, gerr, grc, wall = r
        if rc == "timeout":
            ctx.note_inconclusive("%s shard %d: watchdog fired" % (name, i))
            continue
        if grc != 0 or "GEN-DONE" not in gerr:
            raise HarnessError("%s shard %d: generator failed rc=%s: %s" % (name, i, grc, gerr[-800:]))
        for line in gerr.splitlines():
            if line.startswith("THIRD-VOICE-DISAGREE"):
                ctx.add_violation("C06/rust-crate-disagrees-with-specmodel", line, {"kind": "none"})
        done = False
        for line in out.splitlines():
            if line.startswith("V idx="):
                m = re.match(r"V idx=(\d+) sig=(\S+) detail=(.*)", line)
                idx, sig, detail = m.groups()
                nviol += 1
                if not _own(ctx.pid, sig) and adopt is not None and adopt(sig):
                    sig = "%s/via/%s" % (ctx.pid, sig)
                if _own(ctx.pid, sig):
                    ctx.add_violation(sig, "[%s] %s" % (name, detail),
                                      {"kind": "cdrv", "variant": variant, "san": san, "what": what, "idx": int(idx), "gen_extra": gen_extra,
                                       "seed": ctx.seed, "tier": ctx.tier, "scale": scale})
                else:
                    other[sig] = other.get(sig, 0) + 1
            elif line.startswith("T idx="):
                ctx.note_inconclusive("%s shard %d: %s" % (name, i, line[:160]))
            elif line.startswith("KC ") or line.startswith("AC "):
                _, k, v = line.split()
                kc[k] = kc.get(k, 0) + int(v)
            elif line.startswith("SHAREDSTATE "):
                for part in line.split()[1:]:
                    k, v = part.split("=")
                    if k in ("writable_bytes", "changed_bytes", "outside_detection_cache"):
                        kc["sharedstate_" + k] = kc.get("sharedstate_" + k, 0) + int(v)
                    else:
                        kc.setdefault("sharedstate_" + k, v)
            elif line.startswith("SEAM "):
                for part in line.split()[1:]:
                    k, v = part.split("=")
                    kc["seam_" + k] = kc.get("seam_" + k, 0) + int(v)
            elif line.startswith("TRAMP "):
                for part in line.split()[1:]:
                    k, v = part.split("=")
                    kc["trampoline_calls_" + k] = kc.get("trampoline_calls_" + k, 0) + int(v)
            elif line.startswith("DISTINCT "):
                distinct += int(line.split()[1])
            elif line.startswith("DONE "):
                done = True
                m = re.search(r"records=(\d+)", line)
                records += int(m.group(1))
        # tool reports (ASan/UBSan/TSan/valgrind) and abnormal exits
        death = re.search(r"SANITIZER-DEATH idx=(\d+)", err)
        if death or "ERROR: AddressSanitizer" in err or "runtime error:" in err or "WARNING: ThreadSanitizer" in err:
            idx = int(death.group(1)) if death else -1
            head = "\n".join([l for l in err.splitlines() if l.strip()][:14])
            kind = "asan" if "AddressSanitizer" in err else "tsan" if "ThreadSanitizer" in err else "ubsan"
            frame = re.search(r"#\d+ 0x[0-9a-f]+ in (blake3_\w+|compress_\w+|hasher_\w+|chunk_state_\w+|output_\w+)", err)
            in_blake3 = frame is not None or "/repo/c/" in err
            sig = "%s/%s/%s/%s" % ("C08" if kind == "tsan" and ctx.pid in ("C08", "C18") else "C07", kind, variant, frame.group(1) if frame else "unattributed")
            if kind == "tsan" and ctx.pid in ("C08", "C18"):
                sig = "%s/tsan/%s/%s" % (ctx.pid, variant, frame.group(1) if frame else "unattributed")
            if in_blake3:
                if _own(ctx.pid, sig):
                    ctx.add_violation(sig, "[%s] %s report at record %d:\n%s" % (name, kind, idx, head[:1200]),
                                      {"kind": "cdrv", "variant": variant, "san": san, "what": what, "idx": idx, "gen_extra": gen_extra,
                                       "seed": ctx.seed, "tier": ctx.tier, "scale": scale})
                else:
                    other[sig] = other.get(sig, 0) + 1
            else:
                ctx.note_inconclusive("%s shard %d: %s report without a BLAKE3 frame: %s" % (name, i, kind, head[:300]))
            tool_reports.append(kind)
        elif "== Invalid" in err or "uninitialised value" in err or "== Conditional jump" in err or "Process terminating" in err:
            # valgrind memcheck
            blocks = re.split(r"\n==\d+== \n", err)
            for b in blocks:
                if "Invalid" in b or "uninitialised" in b or "Conditional jump" in b:
                    fr = re.search(r"(?:at|by) 0x[0-9A-F]+: (blake3_\w+|_?blake3\w+|wg_\w+)", b)
                    recs = re.findall(r"REC (\d+)", err[:err.find(b[:40])] if b[:40] in err else "")
                    idx = int(recs[-1]) if recs else -1
                    if fr:
                        sig = "C07/valgrind/%s/%s" % (variant, fr.group(1))
                        if _own(ctx.pid, sig):
                            ctx.add_violation(sig, "[%s] memcheck report near record %d:\n%s" % (name, idx, b[:1000]),
                                              {"kind": "cdrv", "variant": variant, "san": san, "what": what, "idx": idx, "gen_extra": gen_extra,
                                               "seed": ctx.seed, "tier": ctx.tier, "scale": scale, "wrapper": wrapper})
                        else:
                            other[sig] = other.get(sig, 0) + 1
                    else:
                        ctx.note_inconclusive("%s shard %d: memcheck report without a BLAKE3 frame: %s" % (name, i, b[:200].replace("\n", " | ")))
                    tool_reports.append("valgrind")
        elif rc != 0 or not done:
            raise HarnessError("%s shard %d: cdrv exited %s without DONE: %s | %s" % (name, i, rc, out[-400:], err[-800:]))
    if len(samples) == 0:
        samples.append({"variant": variant, "sanitizer": san, "what": what, "classes": dict(sorted(kc.items())[:8])})
    obs = {"records": records, "distinct": distinct, "classes": kc, "violation_lines": nviol, "tool_reports": len(tool_reports),
           "signatures_of_other_properties_seen": other, "shards": shards, "variant": variant, "sanitizer": san,
           "wrapper": " ".join(wrapper) if wrapper else ""}
    rule = ("C op-script records executed by cdrv (kernel calls by symbol incl. Windows-GNU assembly through ms_abi trampolines; blake3_hasher API "
            "histories) with guard-page arenas, canaries and specmodel-computed expected outputs; distinct = distinct (kernel class, structural "
            "parameters, counter class, placement) / (op, length, seek, mask) buckets counted in a bitmap by the driver")
    ctx.add_observed(name, records, distinct, samples, rule, obs)
    if other:
        ctx.note_inconclusive("%s: signatures belonging to other properties were seen and are reported by their own checks: %s" % (name, sorted(other)[:6]))
    return obs


# --------------------------------------------------------------------------------------------
# Miri (UB + data-race interpreter) on the Rust monitors
# --------------------------------------------------------------------------------------------
MIRI_FEATURES = {"pure": ["--no-default-features", "--features", "std,pure"],
                 "pure-rayon": ["--no-default-features", "--features", "std,pure,miri_rayon"]}


MIRI_FEATURES["xt"] = ["--no-default-features", "--features", "std,pure,refimpl"]


def miri_run(ctx, name, args, shards=16, flavour="pure", miriflags="", timeout=1500, owner=None, target=None, adopt=None):
    """Run `mon <args>` under Miri as `shards` processes. A UB/data-race report whose stack has a
    frame under /repo is a violation of `owner` (default ctx.pid); one confined to third-party
    crates is inconclusive; one in the harness itself is a harness error."""
    owner = owner or ctx.pid
    tdir = os.path.join(TARGET, "miri" if not target else "miri-" + target.split("-")[0])
    env = env_base()
    # foreign targets are interpreted as they are (no x86 target features)
    env["RUSTFLAGS"] = ("--cfg %s -Ctarget-feature=+sse4.1,+avx2" % GUARD) if not target else ("--cfg %s" % GUARD)
    env["MIRIFLAGS"] = ("-Zmiri-disable-isolation " + miriflags).strip()
    base = ["cargo", "+nightly", "miri", "run", "--offline", "-q", "-p", "mon", "--target-dir", tdir] + MIRI_FEATURES[flavour] + \
           (["--target", target] if target else []) + ["--"]
    env0 = dict(env)
    env0["MIRIFLAGS"] = env["MIRIFLAGS"].replace("{shard}", "0")
    rc, out, to = run(base + ["selftest"], cwd=HARNESS, env=env0, timeout=2700)
    if rc != 0:
        ctx.note_inconclusive("%s: Miri unavailable or build failed: %s" % (name, out[-400:]))
        return
    results = [None] * shards

    def one(i):
        fd, outp = tempfile.mkstemp(prefix="verif-miri-", suffix=".json")
        os.close(fd)
        cmd = base + list(args) + ["--seed", str(ctx.seed), "--tier", ctx.tier, "--threads", "1", "--shard", str(i), "--shards", str(shards), "--out", outp]
        t0 = time.time()
        env_i = dict(env)
        env_i["MIRIFLAGS"] = env["MIRIFLAGS"].replace("{shard}", str(i + 1000 * ctx.seed))
        rc, out, to = run(cmd, cwd=HARNESS, env=env_i, timeout=timeout)
        rep = None
        if rc == 0:
            try:
                rep = json.load(open(outp))
            except Exception:
                rep = None
        try:
            os.unlink(outp)
        except OSError:
            pass
        results[i] = (rc, out, to, rep, time.time() - t0)

    with concurrent.futures.ThreadPoolExecutor(max_workers=shards) as ex:
        list(ex.map(one, range(shards)))
    reports = 0
    for i, (rc, out, to, rep, wall) in enumerate(results):
        step = {"step": "%s#%d" % (name, i), "tool": "miri", "wall_s": round(wall, 1), "rc": rc}
        if to:
            ctx.note_inconclusive("%s shard %d: Miri watchdog fired" % (name, i))
            step["verdict"] = "inconclusive"
        elif rc == 0 and rep is not None:
            ctx.fold("%s#%d" % (name, i), "miri-" + flavour, "miri", rep, must_observe=False, adopt=adopt)
            step["evaluations"] = rep["evaluations"]
            step["verdict"] = "held"
        elif "Undefined Behavior" in out or "Data race" in out or "error: unsupported operation" in out:
            reports += 1
            frames = re.findall(r"at (/repo/src/[\w./]+:\d+)", out)
            kind = "data-race" if "Data race" in out else "unsupported" if "unsupported operation" in out else "undefined-behavior"
            msg = re.search(r"error: (.*)", out)
            head = msg.group(1)[:300] if msg else kind
            harness_frames = re.findall(r"at (mon/src/[\w./]+:\d+|monlib/src/[\w./]+:\d+)", out)
            epos = max(out.find("error: Undefined Behavior"), out.find("error: Data race"), out.find("error: unsupported operation"))
            etext = out[epos:] if epos >= 0 else out
            first = re.search(r"-->\s+(\S+):(\d+)", etext)
            where = first.group(1) if first else ""
            frames = re.findall(r"at (/repo/src/[\w./]+:\d+)", etext)
            if kind == "unsupported":
                ctx.note_inconclusive("%s shard %d: Miri unsupported operation: %s" % (name, i, head))
                step["verdict"] = "inconclusive"
            elif where.startswith("/repo/") or (frames and not where.startswith("mon/") and not where.startswith("monlib/")):
                fn = re.search(r"0: ([\w:<>]+)", etext)
                sig = "%s/miri/%s/%s" % (owner, kind, (fn.group(1) if fn else where)[:80])
                ctx.add_violation(sig, "[%s] Miri: %s at %s; frames under /repo: %s" % (name, head, where, frames[:4]),
                                  {"kind": "miri", "args": list(args) + ["--shard", str(i), "--shards", str(shards)], "flavour": flavour, "miriflags": miriflags,
                                   "seed": ctx.seed, "tier": ctx.tier})
                step["verdict"] = "violated"
            elif where.startswith("mon/") or where.startswith("monlib/") or where.startswith("specmodel/"):
                raise HarnessError("%s shard %d: Miri reports UB inside the harness at %s: %s" % (name, i, where, head))
            else:
                ctx.note_inconclusive("%s shard %d: Miri report outside /repo (%s): %s" % (name, i, where, head))
                step["verdict"] = "inconclusive"
        else:
            raise HarnessError("%s shard %d: Miri run failed rc=%s: %s" % (name, i, rc, out[-1200:]))
        ctx.steps.append(step)
    obs = ctx.observations.setdefault(name, {})
    obs["miri_shards"] = shards
    obs["miri_reports"] = reports
    obs["miri_flags"] = env["MIRIFLAGS"]


# --------------------------------------------------------------------------------------------
# ThreadSanitizer build of the Rust monitors (-Zbuild-std, all accesses instrumented)
# --------------------------------------------------------------------------------------------
def tsan_mon(ctx, name, args, timeout=2400, owner=None, env_extra=None):
    owner = owner or ctx.pid
    try:
        exe = cargo_build("tsan", "debug", extra_rustflags="-Zsanitizer=thread", toolchain="nightly",
                          extra_args=["-Zbuild-std", "--target", "x86_64-unknown-linux-gnu"], target_subdir="tsan",
                          features=["--no-default-features", "--features", "std,pure,miri_rayon"])
    except HarnessError as e:
        ctx.note_inconclusive("%s: TSan build unavailable: %s" % (name, str(e)[-300:]))
        return None
    fd, outp = tempfile.mkstemp(prefix="verif-tsan-", suffix=".json")
    os.close(fd)
    env = env_base()
    env["TSAN_OPTIONS"] = "halt_on_error=0 exitcode=66 second_deadlock_stack=1"
    if env_extra:
        env.update(env_extra)
    t0 = time.time()
    rc, out, to = run([exe] + list(args) + ["--seed", str(ctx.seed), "--tier", ctx.tier, "--out", outp], env=env, timeout=timeout)
    step = {"step": name, "tool": "tsan", "wall_s": round(time.time() - t0, 1), "rc": rc}
    ctx.steps.append(step)
    try:
        if to:
            ctx.note_inconclusive("%s: watchdog fired" % name)
            return None
        reports = out.count("WARNING: ThreadSanitizer")
        if reports:
            # dedupe by the outermost in-repo frames
            blocks = out.split("WARNING: ThreadSanitizer")[1:]
            seen = set()
            for b in blocks:
                frames = re.findall(r"#\d+ (\S+) /repo/src/([\w./]+):(\d+)", b)
                key = tuple(sorted(set(f[0][:60] for f in frames[:6])))
                if key in seen:
                    continue
                seen.add(key)
                if frames:
                    sig = "%s/tsan/rust/%s" % (owner, frames[0][0][:70])
                    ctx.add_violation(sig, "[%s] ThreadSanitizer: %s" % (name, b[:1500]),
                                      {"kind": "cmd", "cmd": ["./check", ctx.pid, "--tier", ctx.tier], "cwd": VERIF})
                else:
                    ctx.note_inconclusive("%s: TSan report without a frame under /repo/src: %s" % (name, b[:300].replace("\n", " | ")))
            step["verdict"] = "violated" if ctx.violations else "inconclusive"
        if rc not in (0, 66):
            raise HarnessError("%s: TSan run exited %s: %s" % (name, rc, out[-1200:]))
        rep = json.load(open(outp))
        ctx.fold(name, "tsan", "debug", rep)
        ctx.observations.setdefault(name, {})["tsan_reports"] = reports
        step["evaluations"] = rep["evaluations"]
        step.setdefault("verdict", "held")
        return rep
    finally:
        try:
            os.unlink(outp)
        except OSError:
            pass


def cdrv_big(ctx, name, variant, kind, length, seek=0, exe=None, timeout=1800):
    """Size-class probe of the C API: one call that moves `length` (> 2^32) bytes (cdrv --big).
    Expected values come from the specification model (mon huge-expect)."""
    import cbuild
    mon = cargo_build("asm", "release")
    exe = exe or cbuild.build(variant, "native")
    dseed = (ctx.seed * 0x9E3779B97F4A7C15 + length) % (1 << 63)
    t0 = time.time()
    if kind == "update":
        rc, out, to = run([mon, "huge-expect", "--kind", "update", "--len", str(length), "--dseed", str(dseed)], env=env_base(), timeout=timeout)
        m = re.search(r"HASH ([0-9a-f]{64})", out or "")
        argv = [exe, "--big", "update", str(length), str(dseed), m.group(1) if m else ""]
    else:
        rc, out, to = run([mon, "huge-expect", "--kind", "finalize", "--dseed", str(dseed), "--at", str(seek + length - 64)], env=env_base(), timeout=timeout)
        m = re.search(r"TAIL ([0-9a-f]{128})", out or "")
        argv = [exe, "--big", "finalize", str(length), str(dseed), str(seek), m.group(1) if m else ""]
    if to:
        ctx.note_inconclusive("%s: model watchdog fired" % name)
        return
    if rc != 0 or not m:
        raise HarnessError("%s: mon huge-expect failed rc=%s: %s" % (name, rc, (out or "")[-400:]))
    rc, out, to = run(argv, env=env_base(), timeout=timeout)
    step = {"step": name, "tool": "cdrv --big", "wall_s": round(time.time() - t0, 1), "rc": rc}
    ctx.steps.append(step)
    if to:
        ctx.note_inconclusive("%s: watchdog fired" % name)
        return
    nv = 0
    for line in out.splitlines():
        if line.startswith("V idx="):
            mm = re.match(r"V idx=(\d+) sig=(\S+) detail=(.*)", line)
            _, sig, detail = mm.groups()
            if _own(ctx.pid, sig):
                nv += 1
                ctx.add_violation(sig, "[%s] %s" % (name, detail), {"kind": "cmd", "cmd": argv, "cwd": VERIF})
        elif line.startswith("T idx="):
            ctx.note_inconclusive("%s: %s" % (name, line[:200]))
    mdone = re.search(r"DONE records=(\d+)", out)
    if not mdone and nv == 0:
        if rc in (-9, 137):
            ctx.note_inconclusive("%s: killed (out of memory?)" % name)
            return
        raise HarnessError("%s: cdrv --big exited %s without DONE: %s" % (name, rc, out[-600:]))
    ctx.add_observed(name, int(mdone.group(1)) if mdone else 1, 1, [{"probe": kind, "bytes": length, "seek": seek}],
                     "size-class probes of the C API: one blake3_hasher_update / blake3_hasher_finalize[_seek] call moving more than 2^32 bytes, compared with the specification model and with the same bytes moved in pieces",
                     {"bytes": length, "kind": kind})
    step["verdict"] = "violated" if nv else "held"


# --------------------------------------------------------------------------------------------
# Evidence only: llvm-cov line coverage of the anchored source files under a monitor workload
# --------------------------------------------------------------------------------------------
def coverage_evidence(ctx, monitors, sources, scale="0.2"):
    """Builds `mon` with -Cinstrument-coverage (nightly, so that the sysroot's llvm-tools match),
    runs the given monitor subcommands at reduced scale and records, per anchored source file,
    how many lines the workload executed and which lines it never reached. Never a verdict."""
    try:
        rc, sysroot, _ = run(["rustc", "+nightly", "--print", "sysroot"], timeout=60)
        bindir = os.path.join(sysroot.strip(), "lib", "rustlib", "x86_64-unknown-linux-gnu", "bin")
        profdata, cov = os.path.join(bindir, "llvm-profdata"), os.path.join(bindir, "llvm-cov")
        if not (os.path.exists(profdata) and os.path.exists(cov)):
            ctx.note_inconclusive("coverage evidence: llvm-tools not found")
            return
        exe = cargo_build("cov", "debug", extra_rustflags="-Cinstrument-coverage", toolchain="nightly", target_subdir="cov",
                          features=["--features", "full"],
                          # instrumented build scripts would otherwise drop default_*.profraw into /repo
                          env_extra={"LLVM_PROFILE_FILE": "/dev/null"})
        d = tempfile.mkdtemp(prefix="verif-cov-")
        try:
            for m in monitors:
                env = env_base()
                env["LLVM_PROFILE_FILE"] = os.path.join(d, "%s-%%p.profraw" % m.split()[0])
                fd, outp = tempfile.mkstemp(prefix="verif-rep-", suffix=".json")
                os.close(fd)
                run([exe] + m.split() + ["--scale", scale, "--seed", str(ctx.seed), "--out", outp], env=env, timeout=1800)
                os.unlink(outp)
            raws = [os.path.join(d, f) for f in os.listdir(d) if f.endswith(".profraw")]
            if not raws:
                ctx.note_inconclusive("coverage evidence: no profile written")
                return
            merged = os.path.join(d, "all.profdata")
            rc, out, _ = run([profdata, "merge", "-sparse"] + raws + ["-o", merged], timeout=600)
            if rc != 0:
                ctx.note_inconclusive("coverage evidence: llvm-profdata failed: %s" % out[-200:])
                return
            p = subprocess.run([cov, "export", exe, "-instr-profile=" + merged, "--format=lcov", "--sources"] + sources,
                               stdout=subprocess.PIPE, stderr=subprocess.DEVNULL, timeout=600)
            res = {}
            cur, tot, miss = None, 0, []
            for line in p.stdout.decode("utf-8", "replace").splitlines():
                if line.startswith("SF:"):
                    cur, tot, miss = line[3:], 0, []
                elif line.startswith("DA:"):
                    n, c = line[3:].split(",")[:2]
                    tot += 1
                    if c == "0":
                        miss.append(int(n))
                elif line == "end_of_record" and cur:
                    res[cur] = {"lines_instrumented": tot, "lines_executed": tot - len(miss), "unreached_lines": miss[:80]}
            ctx.observations["llvm_cov_of_anchored_files"] = {"workload": monitors, "scale": scale, "files": res}
        finally:
            shutil.rmtree(d, ignore_errors=True)
    except HarnessError as e:
        ctx.note_inconclusive("coverage evidence unavailable: %s" % str(e)[-200:])
