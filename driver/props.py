"""Per-property check recipes (which builds, which monitors, which tools)."""
import os
import core
from core import HarnessError


def setup():
    """MANIFEST.setup_cmd: build every binary the quick checks need (offline, from disk)."""
    for fl, prof in [("asm", "debug"), ("asm", "release")]:
        core.cargo_build(fl, prof)
    print("setup ok")
    return 0


def c01(ctx):
    ctx.mon("c01/asm-debug", "asm", "debug", ["c01"])
    ctx.mon("c01/asm-release", "asm", "release", ["c01"])


def c02(ctx):
    ctx.mon("c02/asm-debug", "asm", "debug", ["c02"])
    ctx.mon("c02/asm-release", "asm", "release", ["c02"])


def c03(ctx):
    ctx.mon("c03/asm-debug", "asm", "debug", ["c03"])
    ctx.mon("c03/asm-release", "asm", "release", ["c03"])


def c09(ctx):
    ctx.mon("c09/asm-debug", "asm", "debug", ["c09"])
    ctx.mon("c09/asm-release", "asm", "release", ["c09"])


def c10(ctx):
    ctx.mon("c10/asm-debug", "asm", "debug", ["c10"])
    ctx.mon("c10/asm-release", "asm", "release", ["c10"])


PROPS = {
    "C01": c01,
    "C02": c02,
    "C03": c03,
    "C09": c09,
    "C10": c10,
}


def replay_special(ctx, rec):
    raise HarnessError("unknown replay kind %r" % rec["replay"].get("kind"))
