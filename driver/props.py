"""Per-property check recipes (which builds, which monitors, which tools)."""
import os
import core
from core import HarnessError


def setup():
    """MANIFEST.setup_cmd: build every binary the quick checks need (offline, from disk)."""
    for fl, prof in [("asm", "debug"), ("asm", "release"), ("intr", "debug"), ("pure", "debug"), ("asm-std", "debug"), ("asm-nostd", "debug")]:
        core.cargo_build(fl, prof)
    b3sum_bin("asm", "release")
    b3sum_bin("asm", "debug")
    b3mon_bin("debug")
    b3mon_bin("release")
    import cbuild
    for v in ("asm", "int"):
        for san in ("native", "asan"):
            cbuild.build(v, san)
    cbuild.build_cmt("native")
    try:
        core.cargo_build("tsan", "debug", extra_rustflags="-Zsanitizer=thread", toolchain="nightly",
                         extra_args=["-Zbuild-std", "--target", "x86_64-unknown-linux-gnu"], target_subdir="tsan",
                         features=["--no-default-features", "--features", "std,pure,miri_rayon"])
    except core.HarnessError as e:
        print("setup: TSan build unavailable (checks will record it as inconclusive): %s" % str(e)[-200:])
    # warm the Miri sysroot/target so that quick checks do not pay for it
    env = core.env_base()
    env["RUSTFLAGS"] = "--cfg %s -Ctarget-feature=+sse4.1,+avx2" % core.GUARD
    env["MIRIFLAGS"] = "-Zmiri-disable-isolation"
    core.run(["cargo", "+nightly", "miri", "run", "--offline", "-q", "-p", "mon", "--target-dir", os.path.join(core.TARGET, "miri")] + core.MIRI_FEATURES["pure"] + ["--", "selftest"],
             cwd=core.HARNESS, env=env, timeout=1800)
    for t in XT_TARGETS:
        env2 = core.env_base()
        env2["RUSTFLAGS"] = "--cfg %s" % core.GUARD
        env2["MIRIFLAGS"] = "-Zmiri-disable-isolation"
        core.run(["cargo", "+nightly", "miri", "run", "--offline", "-q", "-p", "mon", "--target-dir", os.path.join(core.TARGET, "miri-" + t.split("-")[0])] +
                 core.MIRI_FEATURES["xt"] + ["--target", t, "--", "selftest"], cwd=core.HARNESS, env=env2, timeout=2700)
    print("setup ok")
    return 0


XT_TARGETS = ["s390x-unknown-linux-gnu", "i686-unknown-linux-gnu"]


def xtarget(ctx, classes):
    """Cross-target battery under Miri (big-endian s390x, 32-bit i686): endianness and pointer
    width are configurations no x86-64 execution can reach. `classes`: which of the battery's
    violation classes count for the calling property."""
    adopt = lambda sig: sig.startswith("XT/") and any(sig.startswith("XT/" + c) for c in classes)
    ctx.parallel([(lambda t=t: core.miri_run(ctx, "xt/" + t.split("-")[0], ["xt"], shards=1, flavour="xt", target=t, adopt=adopt, timeout=2400))
                  for t in XT_TARGETS], workers=2)


def c01(ctx):
    ctx.mon("c01/asm-debug", "asm", "debug", ["c01"])
    ctx.mon("c01/asm-release", "asm", "release", ["c01"])
    # size classes beyond 2^31 (thorough: 2^32) bytes, one input at a time
    ctx.mon("c01/huge", "asm", "release", ["huge", "--what", "oneshot"], timeout=5400)
    # the other two build flavours of the crate (different kernels behind the same dispatch, and in
    # `pure` a different compile-time MAX_SIMD_DEGREE), with their natural platform detection
    ctx.mon("c01/pure-debug", "pure", "debug", ["c01", "--scale", "0.3"])
    ctx.mon("c01/intr-debug", "intr", "debug", ["c01", "--scale", "0.3"])
    if ctx.thorough:
        ctx.mon("c01/pure-release", "pure", "release", ["c01", "--scale", "0.3"])
        ctx.mon("c01/intr-release", "intr", "release", ["c01", "--scale", "0.3"])
    if ctx.thorough:
        xtarget(ctx, ["hash"])
    if ctx.thorough:
        core.coverage_evidence(ctx, ['c01'], ['/repo/src/lib.rs', '/repo/src/portable.rs', '/repo/src/platform.rs', '/repo/src/hazmat.rs'])


def c02(ctx):
    ctx.mon("c02/asm-debug", "asm", "debug", ["c02"])
    ctx.mon("c02/asm-release", "asm", "release", ["c02"])
    # size classes beyond 2^31 (thorough: 2^32) bytes, one input at a time
    ctx.mon("c02/huge", "asm", "release", ["huge", "--what", "hasher"], timeout=5400)
    # the other two build flavours of the crate (different kernels behind the same dispatch, and in
    # `pure` a different compile-time MAX_SIMD_DEGREE), with their natural platform detection
    ctx.mon("c02/pure-debug", "pure", "debug", ["c02", "--scale", "0.3"])
    ctx.mon("c02/intr-debug", "intr", "debug", ["c02", "--scale", "0.3"])
    if ctx.thorough:
        ctx.mon("c02/pure-release", "pure", "release", ["c02", "--scale", "0.3"])
        ctx.mon("c02/intr-release", "intr", "release", ["c02", "--scale", "0.3"])
    if ctx.thorough:
        core.coverage_evidence(ctx, ['c02'], ['/repo/src/lib.rs', '/repo/src/io.rs', '/repo/src/join.rs'])


def c03(ctx):
    ctx.mon("c03/asm-debug", "asm", "debug", ["c03"])
    ctx.mon("c03/asm-release", "asm", "release", ["c03"])
    # the other two build flavours of the crate (different kernels behind the same dispatch, and in
    # `pure` a different compile-time MAX_SIMD_DEGREE), with their natural platform detection
    # the same histories while every thread is interrupted by a signal every 40 us (handler on the
    # thread's own stack): the assembly behind fill() must keep nothing live below the red zone
    ctx.mon("c03/asm-release-sigstorm", "asm", "release", ["c03", "--scale", "0.02" if ctx.thorough else "0.5"], env_extra={"VERIF_SIGSTORM": "40"})
    ctx.mon("c03/pure-debug", "pure", "debug", ["c03", "--scale", "0.3"])
    ctx.mon("c03/intr-debug", "intr", "debug", ["c03", "--scale", "0.3"])
    if ctx.thorough:
        ctx.mon("c03/pure-release", "pure", "release", ["c03", "--scale", "0.3"])
        ctx.mon("c03/intr-release", "intr", "release", ["c03", "--scale", "0.3"])
    if ctx.thorough:
        core.coverage_evidence(ctx, ['c03'], ['/repo/src/lib.rs', '/repo/src/platform.rs'])


def _seam():
    return os.path.join(core.VERIF, "cdrv", "tbb_seam.c")


def c08(ctx):
    t = ctx.thorough
    ctx.mon("c08/asm-debug", "asm", "debug", ["c08", "--scale", "0.6" if t else "1"], timeout=5400)
    ctx.mon("c08/asm-release", "asm", "release", ["c08", "--scale", "0.6" if t else "0.5"], timeout=5400)
    ctx.mon("c08/huge", "asm", "release", ["huge", "--what", "rayon"], timeout=5400)
    # update_mmap_rayon is a multithreaded entry point too: the file battery of C11 (length lattice
    # around the mmap threshold, special files, block device, reads interrupted by real signals)
    ctx.mon("c08/file-entry-points", "asm", "release", ["c11", "--files-only", "1"], adopt=lambda sig: "update_mmap_rayon" in sig)
    ctx.mon("c08/intr-debug", "intr", "debug", ["c08", "--scale", "0.3" if t else "0.3"], timeout=5400)
    import cbuild
    tbb_native = cbuild.build("int", "native", extra_defs=["-DBLAKE3_USE_TBB"], extra_srcs=[_seam()], name="cdrv_int_tbb")
    tbb_asm = cbuild.build("asm", "native", extra_defs=["-DBLAKE3_USE_TBB"], extra_srcs=[_seam()], name="cdrv_asm_tbb")
    tbb_tsan = cbuild.build("int", "tsan", extra_defs=["-DBLAKE3_USE_TBB"], extra_srcs=[_seam()], name="cdrv_int_tbb_tsan")
    core.cdrv_run(ctx, "c/update_tbb-int", "int", "native", "api", scale=0.15 if t else 1.0, gen_extra=["--tbb", "1"], exe=tbb_native)
    core.cdrv_run(ctx, "c/update_tbb-asm", "asm", "native", "api", scale=0.15 if t else 1.0, gen_extra=["--tbb", "1"], exe=tbb_asm)
    jobs = [
        lambda: core.cdrv_run(ctx, "c/update_tbb-tsan", "int", "tsan", "api", scale=0.05 if t else 0.3, shards=8, gen_extra=["--tbb", "1"], exe=tbb_tsan,
                              env_extra={"TSAN_OPTIONS": "halt_on_error=1 exitcode=66"}),
        lambda: core.tsan_mon(ctx, "rust/tsan", ["c08", "--scale", "0.1" if t else "0.2"]),
        lambda: core.miri_run(ctx, "rust/miri", ["c08", "--miri-small", "1", "--scale", "0.006" if t else "0.012"], shards=16, flavour="pure-rayon",
                              miriflags="-Zmiri-tree-borrows -Zmiri-permissive-provenance -Zmiri-ignore-leaks -Zmiri-seed={shard}"),
    ]
    ctx.parallel(jobs, workers=3)


def c09(ctx):
    ctx.mon("c09/asm-debug", "asm", "debug", ["c09"])
    ctx.mon("c09/asm-release", "asm", "release", ["c09"])
    xtarget(ctx, ["hazmat"])
    if ctx.thorough:
        core.coverage_evidence(ctx, ['c09'], ['/repo/src/hazmat.rs', '/repo/src/lib.rs'])


def c10(ctx):
    ctx.mon("c10/asm-debug", "asm", "debug", ["c10"])
    ctx.mon("c10/asm-release", "asm", "release", ["c10"])
    # reset through the RustCrypto traits (src/traits.rs is one of this property's anchors): the C16
    # trait-history monitor compares the state left behind by every resetting variant
    ctx.mon("c10/trait-resets", "asm", "debug", ["c16", "--scale", "0.5"], adopt=lambda sig: sig.startswith("C16/traits"))
    if ctx.thorough:
        core.coverage_evidence(ctx, ['c10', 'c16'], ['/repo/src/lib.rs', '/repo/src/hazmat.rs', '/repo/src/traits.rs'])


def cbuild_mod():
    import cbuild
    return cbuild


def kernel_sweeps(ctx, scale):
    """The kernel sweep shared by C05 (outputs) and C07 (memory/ABI): C side by symbol in both
    cdrv variants, Rust side through Platform in the three crate flavours."""
    ctx.cdrv_kernels = {}
    # for C05 a kernel call that dies instead of returning is a wrong result as well
    died = (lambda sig: sig.startswith("C07/") and "fatal-signal" in sig) if ctx.pid == "C05" else None
    core.cdrv_run(ctx, "kernels/cdrv-asm", "asm", "native", "kernels", scale=scale, adopt=died)
    core.cdrv_run(ctx, "kernels/cdrv-int", "int", "native", "kernels", scale=scale * 0.5, adopt=died)
    core.cdrv_run(ctx, "kernels/cdrv-int-clang-O0", "int", "clangO0", "kernels", scale=scale * 0.1, exe=cbuild_mod().build("int", "clangO0"), adopt=died)
    # the library's own preprocessor configurations (a kernel's tail hands over to another level)
    import cbuild
    for tag, ld in (("no-sse41", ["-DBLAKE3_NO_SSE41"]), ("no-avx512-no-avx2", ["-DBLAKE3_NO_AVX512", "-DBLAKE3_NO_AVX2"]), ("no-sse2", ["-DBLAKE3_NO_SSE2"])):
        core.cdrv_run(ctx, "kernels/cdrv-int-" + tag, "int", "native", "kernels", scale=scale * 0.15, adopt=died,
                      exe=cbuild.build("int", "native", name="cdrv_int_" + tag.replace("-", "_"), lib_defs=ld))
    ctx.mon("kernels/rust-asm", "asm", "debug", ["kern", "--scale", str(scale)])
    ctx.mon("kernels/rust-intr", "intr", "debug", ["kern", "--scale", str(scale * 0.5)])
    ctx.mon("kernels/rust-pure", "pure", "debug", ["kern", "--scale", str(scale * 0.5)])
    if ctx.thorough:
        ctx.mon("kernels/rust-asm-release", "asm", "release", ["kern", "--scale", str(scale)])
        ctx.mon("kernels/rust-intr-release", "intr", "release", ["kern", "--scale", str(scale * 0.5)])
        ctx.mon("kernels/rust-pure-release", "pure", "release", ["kern", "--scale", str(scale * 0.5)])


def c04(ctx):
    """Battery = the C01/C02/C03/C09 monitors (each compares with specmodel, so the comparison is
    N-way) executed in every cell of flavour x forced SIMD level x feature set x profile."""
    t = ctx.thorough
    sc = "0.15" if t else "0.12"
    cells = []
    for fl in ("asm", "intr", "pure"):
        for p in ("portable", "sse2", "sse41", "avx2", "avx512"):
            if fl == "pure" and p == "avx512":
                continue  # no AVX-512 implementation exists in the pure build
            cells.append((fl, "debug", p, None))
    for p in ("portable", "sse2", "sse41", "avx2", "avx512"):
        cells.append(("asm", "release", p, None))
    if t:
        for fl in ("intr", "pure"):
            for p in ("portable", "sse2", "sse41", "avx2", "avx512"):
                if not (fl == "pure" and p == "avx512"):
                    cells.append((fl, "release", p, None))
    # feature sets: default features only (std) and no default features, natural detection + portable
    for fl in ("asm-std", "asm-nostd") + (("intr-nostd", "pure-nostd") if t else ()):
        for p in ("native", "portable") + (("sse41",) if t else ()):
            cells.append((fl, "debug", p, "1"))
    builds = sorted(set((c[0], c[1]) for c in cells))
    ctx.parallel([(lambda b=b: core.cargo_build(b[0], b[1])) for b in builds], workers=4)
    cfgs = {}
    for fl, prof in builds:
        cfgs["%s-%s" % (fl, prof)] = core.build_cfgs(fl, prof)
    ctx.observations["build_script_cfgs"] = cfgs

    def cell(c):
        fl, prof, p, threads = c
        for mname in ("c01", "c02", "c03", "c09"):
            args = [mname, "--platforms", p, "--scale", sc]
            if threads:
                args += ["--threads", threads]
            ctx.mon("cell/%s-%s/%s/%s" % (fl, prof, p, mname), fl, prof, args, adopt=lambda sig: True)

    ctx.parallel([(lambda c=c: cell(c)) for c in cells], workers=6)
    # the optional `mmap` feature is part of the feature-set clause: the file battery of C11 (length
    # lattice, special files, block device, other user, address-space limit) in the full-feature build
    ctx.mon("cell/asm-release/full/file-entry-points", "asm", "release", ["c11", "--files-only", "1"], adopt=lambda sig: True)
    seen = {}
    for name, obs in ctx.observations.items():
        if name.startswith("cell/") and name.endswith("/c01"):
            items = obs.get("sets", {}).get("platforms", {}).get("items", [])
            seen[name[5:-4]] = items
    ctx.observations["platform_reported_per_cell"] = seen
    # the hook must really have switched the implementation
    for cellname, items in seen.items():
        want = cellname.split("/")[-1]
        if want != "native" and not any(i.lower().replace("_", "") == "%s=%s" % (want, want) for i in items):
            ctx.note_inconclusive("cell %s: Platform::detect() reported %s under the hook" % (cellname, items))
    if t:
        # stock builds without the hook's help: the platform they report must equal the forced one
        expect = {"no_avx512": "AVX2", "no_avx2": "SSE41", "no_sse41": "SSE2", "no_sse2": "Portable"}
        stock = [("%s-stock-%s" % (fl, no), fl, no) for fl in ("asm", "intr", "pure") for no in ("no_avx512", "no_avx2", "no_sse41", "no_sse2")]
        ctx.parallel([(lambda s=s: core.cargo_build(s[0], "debug")) for s in stock], workers=6)
        for flname, fl, no in stock:
            for mname in ("c01", "c02", "c03", "c09"):
                ctx.mon("stock/%s/%s" % (flname, mname), flname, "debug", [mname, "--platforms", "native", "--scale", "0.3"], adopt=lambda sig: True)
            items = ctx.observations["stock/%s/c01" % flname].get("sets", {}).get("platforms", {}).get("items", [])
            if "native=%s" % expect[no] not in items:
                ctx.note_inconclusive("stock build %s reports %s, expected native=%s" % (flname, items, expect[no]))
            ctx.observations.setdefault("stock_platforms", {})[flname] = items


def c05(ctx):
    kernel_sweeps(ctx, 1.0)
    # the same kernels with several threads inside them at once (C intrinsics, clang -O1, no
    # sanitizer): a kernel's result must not depend on what other threads are hashing meanwhile
    import cbuild
    core.cdrv_run(ctx, "kernels-under-threads/cmt-int-clang", "int", "clang", "api", scale=0.05 if ctx.thorough else 0.3, shards=8, exe=cbuild.build_cmt("clang"),
                  gen_extra=["--first-big", "1"], exe_args=lambda i: [str([4, 16, 8][i % 3]), "12" if ctx.thorough else "4", str(ctx.seed * 100 + i)],
                  adopt=lambda sig: sig.startswith("C18/c/") and "mismatch" in sig)


def c06(ctx):
    # a call that dies instead of returning its result is a C06 violation as well as a C07 one
    died = lambda sig: sig.startswith("C07/api/") and "fatal-signal" in sig
    core.cdrv_run(ctx, "api/cdrv-asm", "asm", "native", "api", scale=0.2 if ctx.thorough else 1.0, adopt=died)
    core.cdrv_run(ctx, "api/cdrv-int", "int", "native", "api", scale=0.2 if ctx.thorough else 1.0, adopt=died)
    import cbuild
    for tag, ld in (("no-sse41", ["-DBLAKE3_NO_SSE41"]), ("no-avx512-no-avx2", ["-DBLAKE3_NO_AVX512", "-DBLAKE3_NO_AVX2"]), ("no-sse2", ["-DBLAKE3_NO_SSE2"])):
        core.cdrv_run(ctx, "api/cdrv-int-" + tag, "int", "native", "api", scale=0.04 if ctx.thorough else 0.25, adopt=died,
                      exe=cbuild.build("int", "native", name="cdrv_int_" + tag.replace("-", "_"), lib_defs=ld))
    # the intrinsics flavour as clang builds it without optimisation (aligned-access assumptions that
    # an optimiser happens to hide)
    core.cdrv_run(ctx, "api/cdrv-int-clang-O0", "int", "clangO0", "api", scale=0.04 if ctx.thorough else 0.25, adopt=died, exe=cbuild.build("int", "clangO0"))
    # size classes no op-script reaches: one call that moves more than 2^32 bytes (one at a time:
    # each probe holds 4-8 GiB)
    core.cdrv_big(ctx, "huge/finalize-2^32+10", "asm", "finalize", (1 << 32) + 10)
    core.cdrv_big(ctx, "huge/update-2^33", "asm", "update", 1 << 33)
    if ctx.thorough:
        core.cdrv_big(ctx, "huge/finalize_seek-2^32+4097", "int", "finalize", (1 << 32) + 4097, seek=(1 << 35) - 17)
        core.cdrv_big(ctx, "huge/finalize-2^33", "asm", "finalize", 1 << 33)
        core.cdrv_big(ctx, "huge/update-2^32+1025", "int", "update", (1 << 32) + 1025)
        core.cdrv_big(ctx, "huge/update-2^33+2^31+5", "asm", "update", (1 << 33) + (1 << 31) + 5)


def c07(ctx):
    t = ctx.thorough
    # 1. native: kernel sweep + API histories, every buffer in a guard arena, asm through trampolines
    kernel_sweeps(ctx, 0.5)
    core.cdrv_run(ctx, "api/cdrv-asm", "asm", "native", "api", scale=0.3 if t else 0.5)
    core.cdrv_run(ctx, "api/cdrv-int", "int", "native", "api", scale=0.3 if t else 0.5)
    # 1b. the assembly kernels again while a timer signal handler keeps running on the same stack
    # (stack discipline: nothing live below the red zone / below rsp)
    so = core.cdrv_run(ctx, "kernels/cdrv-asm-sigstorm", "asm", "native", "kernels", scale=0.1 if t else 0.25, env_extra={"CDRV_SIGSTORM": "40"})
    if not so["classes"].get("storm_signals_inside_monitored_calls"):
        ctx.note_inconclusive("signal storm: no signal was delivered inside a monitored call")
    ctx.mon("kernels/rust-asm-sigstorm", "asm", "release", ["kern", "--scale", "0.07" if t else "0.2"], env_extra={"VERIF_SIGSTORM": "40"})
    ctx.mon("rust-api-sigstorm/c03", "asm", "release", ["c03", "--scale", "0.02" if ctx.thorough else "0.5"], env_extra={"VERIF_SIGSTORM": "40"}, adopt=lambda sig: sig.startswith("C03/"))
    # 2. Rust API level: every update slice / fill destination flush against a guard page
    ctx.mon("rust-api-guard/c02", "asm", "debug", ["c02", "--guard", "1", "--scale", "0.05" if t else "0.3"], adopt=lambda sig: ("canary" in sig or "fatal" in sig))
    ctx.mon("rust-api-guard/c03", "asm", "debug", ["c03", "--guard", "1", "--scale", "0.01" if t else "0.3"], adopt=lambda sig: ("canary" in sig or "fatal" in sig))
    ctx.mon("rust-api-guard/c02-intr", "intr", "debug", ["c02", "--guard", "1", "--scale", "0.03" if t else "0.15"], adopt=lambda sig: ("canary" in sig or "fatal" in sig))
    ctx.mon("safe-api-probes", "asm", "debug", ["probes"])
    ctx.mon("safe-api-probes-intr", "intr", "debug", ["probes"])
    # 3. sanitizer / interpreter / memcheck builds of the same workloads, concurrently
    def asan(variant, what, scale):
        return lambda: core.cdrv_run(ctx, "asan-ubsan/%s-%s" % (variant, what), variant, "asan", what, scale=scale, shards=4,
                                     env_extra={"ASAN_OPTIONS": "detect_leaks=0:abort_on_error=0:halt_on_error=1", "UBSAN_OPTIONS": "print_stacktrace=1:halt_on_error=1"})
    def vg(what, scale):
        return lambda: core.cdrv_run(ctx, "valgrind/asm-%s" % what, "asm", "native", what, scale=scale, shards=4, gen_extra=["--no-avx512", "1"],
                                     wrapper=["valgrind", "-q", "--error-exitcode=0", "--track-origins=no"], trace=True, timeout=2400)
    jobs = [asan("asm", "kernels", 0.04 if t else 0.15), asan("int", "kernels", 0.04 if t else 0.15), asan("asm", "api", 0.04 if t else 0.25), asan("int", "api", 0.04 if t else 0.25),
            vg("kernels", 0.005 if t else 0.02), vg("api", 0.006 if t else 0.04),
            lambda: core.miri_run(ctx, "miri/kern", ["kern", "--randomize", "1", "--scale", "0.0004" if t else "0.001"], shards=16),
            lambda: core.miri_run(ctx, "miri/hist", ["c02", "--scale", "0.002" if t else "0.012", "--miri-small", "1"], shards=16)]
    ctx.parallel(jobs, workers=len(jobs))


def c11(ctx):
    ctx.mon("c11/asm-debug", "asm", "debug", ["c11"])
    ctx.mon("c11/asm-release", "asm", "release", ["c11"])
    # sparse all-zero files longer than 2^31 (thorough: 2^32) bytes through the three file entry points
    ctx.mon("c11/huge-files", "asm", "release", ["huge", "--what", "file"], timeout=5400)
    # evidence that the mmap path / the read fallback were really taken: syscall trace of the file part
    import tempfile, re
    exe = core.cargo_build("asm", "release")
    fd, tr = tempfile.mkstemp(prefix="verif-strace-")
    os.close(fd)
    fd, outp = tempfile.mkstemp(prefix="verif-rep-")
    os.close(fd)
    rc, out, to = core.run(["strace", "-f", "-e", "trace=mmap,read,lseek,openat", "-o", tr, exe, "c11", "--files-only", "1", "--threads", "1",
                            "--seed", str(ctx.seed), "--tier", "quick", "--out", outp], timeout=900)
    try:
        txt = open(tr, errors="replace").read()
        shared = re.findall(r"mmap\(NULL, (\d+), PROT_READ, MAP_SHARED, \d+, 0\)", txt)
        sizes = sorted(set(int(x) for x in shared))
        obs = {"strace_rc": rc, "file_mmap_calls": len(shared), "smallest_mapped_len": sizes[0] if sizes else None,
               "mapped_lens_below_16384": [x for x in sizes if x < 16384],
               "lseek_end_calls": len(re.findall(r"lseek\(\d+, -16383, SEEK_END\)", txt)), "read_calls": txt.count("read(")}
        if rc != 0 or not shared:
            ctx.note_inconclusive("c11/strace: no mmap(MAP_SHARED) observed (rc=%s)" % rc)
        ctx.add_observed("c11/strace-evidence", len(shared), min(len(sizes), len(shared)), [{"mapped_lengths_sample": sizes[:12]}],
                         "syscall trace of the file lattice: which lengths were really mapped (evidence only)", obs)
    finally:
        for f in (tr, outp):
            try:
                os.unlink(f)
            except OSError:
                pass
    if ctx.thorough:
        core.coverage_evidence(ctx, ['c11'], ['/repo/src/io.rs', '/repo/src/lib.rs'])


def c14(ctx):
    ctx.mon("c14/asm-debug", "asm", "debug", ["c14"])
    ctx.mon("c14/asm-release", "asm", "release", ["c14"])


def c15(ctx):
    ctx.mon("c15/asm-debug", "asm", "debug", ["c15"])
    ctx.mon("c15/asm-release", "asm", "release", ["c15"])
    # one update call of more than 2^32 bytes into the reference implementation
    ctx.mon("c15/huge-refimpl", "asm", "release", ["huge", "--what", "refimpl"], timeout=3600)
    xtarget(ctx, ["reference_impl"])
    # second, independent voice for the published vectors: pyspec (big-int Python model)
    import json, sys
    sys.path.insert(0, os.path.join(core.VERIF, "pyspec"))
    import b3spec
    lens = [0, 1, 2, 3, 4, 5, 6, 7, 8, 63, 64, 65, 127, 128, 129, 1023, 1024, 1025, 2048, 2049, 3072, 3073, 4096, 4097, 5120, 5121,
            6144, 6145, 7168, 7169, 8192, 8193, 16384, 31744, 102400]
    path = os.path.join(core.REPO, "test_vectors", "test_vectors.json")
    try:
        v = json.load(open(path))
    except Exception as e:
        ctx.add_violation("C15/json/parse", "test_vectors.json unreadable: %s" % e, {"kind": "none"})
        return
    key = b"whats the Elvish word for friend"
    context = b"BLAKE3 2019-12-27 16:29:52 test vectors context"
    n = 0
    if v.get("key") != key.decode() or v.get("context_string") != context.decode():
        ctx.add_violation("C15/json/key-or-context", "key/context_string fields differ from the published ones", {"kind": "cmd", "cmd": ["./check", "C15"]})
    if [c.get("input_len") for c in v.get("cases", [])] != lens:
        ctx.add_violation("C15/json/lengths", "input lengths differ from the canonical 35", {"kind": "cmd", "cmd": ["./check", "C15"]})
    for c in v.get("cases", []):
        L = c["input_len"]
        data = bytes(i % 251 for i in range(L))
        for field, mode in (("hash", "hash"), ("keyed_hash", "keyed"), ("derive_key", "derive")):
            want = b3spec.xof(data, mode=mode, key=key, context=context, seek=0, length=131).hex()
            n += 1
            if c.get(field) != want:
                ctx.add_violation("C15/json/vector-pyspec", "%s for input_len %d differs from pyspec (file %s..., model %s...)" % (field, L, str(c.get(field))[:20], want[:20]),
                                  {"kind": "cmd", "cmd": ["./check", "C15"]})
    ctx.add_observed("c15/json-vs-pyspec", n, n, [{"fields_compared": n, "bytes": n * 131}],
                     "every hex string of test_vectors.json recomputed with pyspec (exhaustive over the finite file)", {"exhaustive": True, "fields": n})


def c16(ctx):
    ctx.mon("c16/asm-debug", "asm", "debug", ["c16"])
    ctx.mon("c16/asm-release", "asm", "release", ["c16"])
    if ctx.thorough:
        core.coverage_evidence(ctx, ['c16'], ['/repo/src/traits.rs', '/repo/src/guts.rs', '/repo/src/lib.rs'])


def c17(ctx):
    ctx.mon("c17/asm-debug", "asm", "debug", ["c17"])
    ctx.mon("c17/asm-release", "asm", "release", ["c17"])
    ctx.mon("c17/pure-debug", "pure", "debug", ["c17", "--scale", "0.3"])
    if ctx.thorough:
        core.coverage_evidence(ctx, ['c17'], ['/repo/src/lib.rs', '/repo/src/guts.rs'])


def c18(ctx):
    t = ctx.thorough
    import cbuild
    # Rust: many fresh processes, N threads each, first calls racing on detection
    nproc = 150 if t else 48
    sizes = [2, 4, 16, 64]
    core.cargo_build("asm", "release")
    core.cargo_build("asm", "debug")
    jobs = []
    for k in range(nproc):
        n = sizes[k % 4]
        prof = "release" if k % 3 else "debug"
        jobs.append(lambda k=k, n=n, prof=prof: ctx.mon("rust/proc%d-%dthreads" % (k, n), "asm", prof,
                                                        ["c18", "--nthreads", str(n), "--proc", str(k), "--per-thread", "6" if n <= 16 else "3"]))
    ctx.parallel(jobs, workers=4)
    # Rust: independent hashers driven from tasks of one Rayon pool (deadlock certificate from /proc)
    ctx.mon("rust/pool-file-tasks", "asm", "release", ["c18", "--pool-files", "1"], timeout=2400)
    # C: fresh processes of the threaded executor against libblake3.so (+ writable-segment diff)
    cmt = cbuild.build_cmt("native")
    # each cmt invocation forks ROUNDS fresh processes (detection cache UNDEFINED in each), threads
    # start staggered by 0-3 us, every history begins with one large update
    core.cdrv_run(ctx, "c/cmt", "asm", "native", "api", scale=0.25 if t else 1.5, shards=16, exe=cmt, gen_extra=["--first-big", "1"],
                  exe_args=lambda i: [str(sizes[i % 4]), "150" if t else "60", str(ctx.seed * 100 + i)])
    # the same with one history in eight opening with a single 1-20 MiB update (process-wide state
    # that depends on input size must not disturb hashers that are in the middle of their own work)
    core.cdrv_run(ctx, "c/cmt-very-big-first", "asm", "native", "api", scale=0.08 if t else 0.5, shards=16, exe=cmt, gen_extra=["--first-big", "2"],
                  exe_args=lambda i: [str(sizes[1 + i % 3]), "80" if t else "40", str(ctx.seed * 100 + 50 + i)])
    def tsan_rust():
        for k in range(6 if t else 3):
            core.tsan_mon(ctx, "rust/tsan-proc%d" % k, ["c18", "--nthreads", str([4, 16, 8][k % 3]), "--proc", str(1000 + k), "--per-thread", "3"])
    jobs = [
        tsan_rust,
        lambda: core.cdrv_run(ctx, "c/cmt-tsan", "int", "tsan", "api", scale=0.04 if t else 0.25, shards=8 if t else 4, exe=cbuild.build_cmt("tsan"),
                              gen_extra=["--first-big", "1"], exe_args=lambda i: [str([4, 16][i % 2]), "6" if t else "3", str(ctx.seed * 100 + i)],
                              env_extra={"TSAN_OPTIONS": "halt_on_error=1 exitcode=66"}),
        lambda: core.miri_run(ctx, "rust/miri", ["c18", "--miri-small", "1", "--nthreads", "3", "--per-thread", "1"], shards=20 if t else 12, flavour="pure",
                              miriflags="-Zmiri-seed={shard}"),
    ]
    ctx.parallel(jobs, workers=3)


B3_FEATURES = {"asm": [], "intr": ["--features", "intr"], "pure": ["--features", "pure"]}


def b3sum_bin(flavour="asm", profile="release"):
    return core.cargo_build(flavour, profile, package="b3wrap", binname="b3sum", features=B3_FEATURES[flavour])


def b3mon_bin(profile="debug"):
    return core.cargo_build("asm", profile, package="b3inc", binname="b3mon", features=[])


def c12(ctx):
    import sys
    sys.path.insert(0, os.path.join(core.VERIF, "pyspec"))
    import cli_monitor
    flavours = [("asm", "release")] + ([("asm", "debug"), ("intr", "release"), ("pure", "release")] if ctx.thorough else [("asm", "debug")])
    for i, (fl, prof) in enumerate(flavours):
        exe = b3sum_bin(fl, prof)
        scale = 1.0 if i == 0 else 0.3
        r = cli_monitor.run(exe, ctx.seed + i, ctx.thorough, scale)
        name = "c12/cli-%s-%s" % (fl, prof)
        seen = set()
        for sig, detail, idx in r["violations"]:
            ctx.add_violation(sig, "[%s] %s" % (name, detail), {"kind": "cmd", "cmd": ["./check", "C12", "--tier", ctx.tier], "cwd": core.VERIF, "note": "case %d of seed %d" % (idx, ctx.seed + i)})
        if r["inconclusive"]:
            ctx.note_inconclusive("%s: %d invocations hit the watchdog" % (name, r["inconclusive"]))
        ctx.add_observed(name, r["evaluations"], r["distinct"], r["samples"],
                         "one evaluation = one invocation of the real b3sum binary (built from the unmodified b3sum/src/main.rs): hashing invocations over mode x --length x --seek x --no-mmap x --num-threads x output form x file count x stdin compared byte for byte with pyspec's S[seek..seek+length]; --check invocations over generated checkfiles mixing good/stale/missing/malformed entries compared with a model of the checkfile (report lines in order, failure count, exit status); distinct = distinct (mode, form, length, seek class, file count, flags) / (checkfile count, verdict, entry kinds) classes",
                         {k: r[k] for k in ("hash_invocations", "check_invocations", "check_cases_with_bad_entries", "check_cases_all_good")})


def c13(ctx):
    exe = b3mon_bin("debug")
    ctx.mon("c13/lines", "asm", "debug", ["lines"], binary=exe)
    ctx.mon("c13/paths", "asm", "debug", ["paths"], binary=exe)
    exe_r = b3mon_bin("release")
    ctx.mon("c13/lines-release", "asm", "release", ["lines"], binary=exe_r)
    ctx.mon("c13/paths-release", "asm", "release", ["paths"], binary=exe_r)
    # end to end on the real binary: hostile file names -> b3sum [--tag] -> parser and --check
    import sys
    sys.path.insert(0, os.path.join(core.VERIF, "pyspec"))
    import cli_monitor
    r = cli_monitor.run_names(b3sum_bin("asm", "release"), exe_r, ctx.seed, ctx.thorough)
    for sig, detail in r["violations"]:
        ctx.add_violation(sig, "[c13/cli-names] " + detail, {"kind": "cmd", "cmd": ["./check", "C13", "--tier", ctx.tier], "cwd": core.VERIF})
    for inc in r.get("inconclusive", []):
        ctx.note_inconclusive("c13/cli-names: " + inc)
    ctx.add_observed("c13/cli-names", r["evaluations"], r["distinct"], r["samples"],
                     "real files with hostile names (spaces, double spaces, ') = ', 'BLAKE3 (' prefixes, backslashes, CR, LF, invalid UTF-8, U+FFFD; systematically: the first '  ' / ') = ' at every offset 0..79; a 4095-byte path made only of characters that need escaping) hashed by the real b3sum binary in plain and --tag form; every printed line is parsed in-process (must return the original name bytes and the file's hash, or be rejected iff the name is unrepresentable) and the whole output is fed to the real b3sum --check; distinct = distinct (form, name feature, representable) classes",
                     {"classes": r["classes"]})


PROPS = {
    "C01": c01,
    "C02": c02,
    "C03": c03,
    "C04": c04,
    "C05": c05,
    "C06": c06,
    "C07": c07,
    "C08": c08,
    "C09": c09,
    "C10": c10,
    "C11": c11,
    "C12": c12,
    "C13": c13,
    "C14": c14,
    "C15": c15,
    "C16": c16,
    "C17": c17,
    "C18": c18,
}


def replay_special(ctx, rec):
    raise HarnessError("unknown replay kind %r" % rec["replay"].get("kind"))
