"""Per-property check recipes (which builds, which monitors, which tools)."""
import os
import core
from core import HarnessError


def setup():
    """MANIFEST.setup_cmd: build every binary the quick checks need (offline, from disk)."""
    for fl, prof in [("asm", "debug"), ("asm", "release"), ("intr", "debug"), ("pure", "debug")]:
        core.cargo_build(fl, prof)
    import cbuild
    for v in ("asm", "int"):
        for san in ("native", "asan"):
            cbuild.build(v, san)
    # warm the Miri sysroot/target so that quick checks do not pay for it
    env = core.env_base()
    env["RUSTFLAGS"] = "--cfg %s -Ctarget-feature=+sse4.1,+avx2" % core.GUARD
    env["MIRIFLAGS"] = "-Zmiri-disable-isolation"
    core.run(["cargo", "+nightly", "miri", "run", "--offline", "-q", "-p", "mon", "--target-dir", os.path.join(core.TARGET, "miri")] + core.MIRI_FEATURES["pure"] + ["--", "selftest"],
             cwd=core.HARNESS, env=env, timeout=1800)
    print("setup ok")
    return 0


def c01(ctx):
    ctx.mon("c01/asm-debug", "asm", "debug", ["c01"])
    ctx.mon("c01/asm-release", "asm", "release", ["c01"])


def c02(ctx):
    ctx.mon("c02/asm-debug", "asm", "debug", ["c02"])
    ctx.mon("c02/asm-release", "asm", "release", ["c02"])


def c03(ctx):
    ctx.mon("c03/asm-debug", "asm", "debug", ["c03"])
    ctx.mon("c03/asm-release", "asm", "release", ["c03"])


def c09(ctx):
    ctx.mon("c09/asm-debug", "asm", "debug", ["c09"])
    ctx.mon("c09/asm-release", "asm", "release", ["c09"])


def c10(ctx):
    ctx.mon("c10/asm-debug", "asm", "debug", ["c10"])
    ctx.mon("c10/asm-release", "asm", "release", ["c10"])


def kernel_sweeps(ctx, scale):
    """The kernel sweep shared by C05 (outputs) and C07 (memory/ABI): C side by symbol in both
    cdrv variants, Rust side through Platform in the three crate flavours."""
    ctx.cdrv_kernels = {}
    core.cdrv_run(ctx, "kernels/cdrv-asm", "asm", "native", "kernels", scale=scale)
    core.cdrv_run(ctx, "kernels/cdrv-int", "int", "native", "kernels", scale=scale * 0.5)
    ctx.mon("kernels/rust-asm", "asm", "debug", ["kern", "--scale", str(scale)])
    ctx.mon("kernels/rust-intr", "intr", "debug", ["kern", "--scale", str(scale * 0.5)])
    ctx.mon("kernels/rust-pure", "pure", "debug", ["kern", "--scale", str(scale * 0.5)])
    if ctx.thorough:
        ctx.mon("kernels/rust-asm-release", "asm", "release", ["kern", "--scale", str(scale)])
        ctx.mon("kernels/rust-intr-release", "intr", "release", ["kern", "--scale", str(scale * 0.5)])
        ctx.mon("kernels/rust-pure-release", "pure", "release", ["kern", "--scale", str(scale * 0.5)])


def c05(ctx):
    kernel_sweeps(ctx, 1.0)


def c06(ctx):
    core.cdrv_run(ctx, "api/cdrv-asm", "asm", "native", "api", scale=1.0)
    core.cdrv_run(ctx, "api/cdrv-int", "int", "native", "api", scale=1.0)


def c07(ctx):
    t = ctx.thorough
    # 1. native: kernel sweep + API histories, every buffer in a guard arena, asm through trampolines
    kernel_sweeps(ctx, 2.0 if t else 0.5)
    core.cdrv_run(ctx, "api/cdrv-asm", "asm", "native", "api", scale=4.0 if t else 0.5)
    core.cdrv_run(ctx, "api/cdrv-int", "int", "native", "api", scale=4.0 if t else 0.5)
    # 2. Rust API level: every update slice / fill destination flush against a guard page
    ctx.mon("rust-api-guard/c02", "asm", "debug", ["c02", "--guard", "1", "--scale", "2" if t else "0.3"])
    ctx.mon("rust-api-guard/c03", "asm", "debug", ["c03", "--guard", "1", "--scale", "2" if t else "0.3"])
    ctx.mon("rust-api-guard/c02-intr", "intr", "debug", ["c02", "--guard", "1", "--scale", "1" if t else "0.15"])
    ctx.mon("safe-api-probes", "asm", "debug", ["probes"])
    ctx.mon("safe-api-probes-intr", "intr", "debug", ["probes"])
    # 3. sanitizer / interpreter / memcheck builds of the same workloads, concurrently
    def asan(variant, what, scale):
        return lambda: core.cdrv_run(ctx, "asan-ubsan/%s-%s" % (variant, what), variant, "asan", what, scale=scale, shards=4,
                                     env_extra={"ASAN_OPTIONS": "detect_leaks=0:abort_on_error=0:halt_on_error=1", "UBSAN_OPTIONS": "print_stacktrace=1:halt_on_error=1"})
    def vg(what, scale):
        return lambda: core.cdrv_run(ctx, "valgrind/asm-%s" % what, "asm", "native", what, scale=scale, shards=4, gen_extra=["--no-avx512", "1"],
                                     wrapper=["valgrind", "-q", "--error-exitcode=0", "--track-origins=no"], trace=True, timeout=2400)
    jobs = [asan("asm", "kernels", 1.0 if t else 0.15), asan("int", "kernels", 1.0 if t else 0.15), asan("asm", "api", 2.0 if t else 0.25), asan("int", "api", 2.0 if t else 0.25),
            vg("kernels", 0.3 if t else 0.02), vg("api", 0.5 if t else 0.04),
            lambda: core.miri_run(ctx, "miri/kern", ["kern", "--randomize", "1", "--scale", "0.016" if t else "0.001"], shards=16),
            lambda: core.miri_run(ctx, "miri/hist", ["c02", "--scale", "0.2" if t else "0.012", "--miri-small", "1"], shards=16)]
    ctx.parallel(jobs, workers=len(jobs))


PROPS = {
    "C01": c01,
    "C02": c02,
    "C03": c03,
    "C05": c05,
    "C06": c06,
    "C07": c07,
    "C09": c09,
    "C10": c10,
}


def replay_special(ctx, rec):
    raise HarnessError("unknown replay kind %r" % rec["replay"].get("kind"))
