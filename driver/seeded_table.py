#!/usr/bin/env python3
"""Prints the markdown table of DESIGN.md section 12 from seeded/RESULTS.jsonl and the meta.json of
every seeded change: first recorded result and latest result of the quick check of the property the
change breaks (or of one of its `also_checks`)."""
import json
import os
import re
import sys

VERIF = os.path.dirname(os.path.dirname(os.path.abspath(__file__)))
SEEDED = os.path.join(VERIF, "seeded")


def main():
    runs = {}
    for line in open(os.path.join(SEEDED, "RESULTS.jsonl")):
        line = line.strip()
        if not line:
            continue
        r = json.loads(line)
        runs.setdefault(r["seeded"], []).append(r)
    names = sorted(d for d in os.listdir(SEEDED) if os.path.isdir(os.path.join(SEEDED, d)))
    rounds = {}
    print("| Seeded change | What it is | caught on first run | caught now (quick tier) | signature(s) |")
    print("|---|---|---|---|---|")
    for n in names:
        meta = json.load(open(os.path.join(SEEDED, n, "meta.json")))
        own = [r for r in runs.get(n, []) if r["check"] == meta["property"] and r.get("tier", "quick") == "quick"]
        anyc = [r for r in runs.get(n, []) if r.get("tier", "quick") == "quick"]
        first = own[0]["caught"] if own else None
        last = own[-1] if own else None
        if last is not None and not last["caught"]:
            # caught by another property's check?
            other = [r for r in anyc if r["caught"] and r["check"] != meta["property"]]
            if other:
                last = other[-1]
        title = re.sub(r"\s+", " ", meta.get("needs_to_manifest", "")).split(" ## ")[0][:150].replace("|", "/")
        sigs = ", ".join(last["signatures"][:2]) if last and last["caught"] else ""
        rnd = {"m1": 1, "m2": 1, "m3": 2, "m4": 2, "m5": 3, "m6": 3, "m7": 4, "m8": 4}.get(n.split("-")[1], 0)
        st = rounds.setdefault(rnd, [0, 0, 0])
        st[0] += 1
        st[1] += 1 if first else 0
        st[2] += 1 if (last and last["caught"]) else 0
        via = "" if not last or last["check"] == meta["property"] else " (by the %s check)" % last["check"]
        print("| `%s` | %s | %s | %s%s | `%s` |" % (n, title, "yes" if first else "**no**", "yes" if last and last["caught"] else "**no**", via, sigs))
    print()
    for rnd in sorted(rounds):
        print("round %d: seeded %d, caught first run %d, caught now %d" % ((rnd,) + tuple(rounds[rnd])), file=sys.stderr)


if __name__ == "__main__":
    main()
