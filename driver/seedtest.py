#!/usr/bin/env python3
"""Runs the registered checks against the seeded changes kept under /verif/seeded/<name>/.

    python3 driver/seedtest.py [name ...] [--tier quick|thorough] [--checks C01,C05]

For each seeded change: git -C /repo apply patch.diff; run the quick command of the property it
breaks (meta.json "property", plus any "also_checks"); record whether a VIOLATION line was printed;
undo with git -C /repo checkout -- . (always, also on errors). /repo must be clean beforehand.
Results are appended to /verif/seeded/RESULTS.jsonl (one line per run).
"""
import json
import os
import subprocess
import sys
import time

VERIF = os.path.dirname(os.path.dirname(os.path.abspath(__file__)))
SEEDED = os.path.join(VERIF, os.environ.get("SEEDTEST_DIR", "seeded"))


def sh(cmd, **kw):
    return subprocess.run(cmd, stdout=subprocess.PIPE, stderr=subprocess.STDOUT, **kw)


def main():
    args = sys.argv[1:]
    tier = "quick"
    only_checks = None
    names = []
    i = 0
    while i < len(args):
        if args[i] == "--tier":
            tier = args[i + 1]
            i += 2
        elif args[i] == "--checks":
            only_checks = args[i + 1].split(",")
            i += 2
        else:
            names.append(args[i])
            i += 1
    if not names:
        names = sorted(d for d in os.listdir(SEEDED) if os.path.isdir(os.path.join(SEEDED, d)))
    st = sh(["git", "-C", "/repo", "status", "--porcelain", "--untracked-files=no"]).stdout.decode().strip()
    if st:
        print("/repo has local modifications; refusing to run:\n" + st)
        return 2
    summary = []
    for name in names:
        d = os.path.join(SEEDED, name)
        meta = json.load(open(os.path.join(d, "meta.json")))
        checks = only_checks or ([meta["property"]] + meta.get("also_checks", []))
        p = sh(["git", "-C", "/repo", "apply", os.path.join(d, "patch.diff")])
        if p.returncode != 0:
            print("%s: patch does not apply: %s" % (name, p.stdout.decode()[-300:]))
            summary.append((name, "patch-failed", []))
            continue
        try:
            for c in checks:
                t0 = time.time()
                env = dict(os.environ)
                env.setdefault("VERIF_SEED", "1")
                r = sh([os.path.join(VERIF, "check"), c, "--tier", tier], cwd=VERIF, env=env)
                out = r.stdout.decode("utf-8", "replace")
                sigs = [l.strip()[len("signature: "):] for l in out.splitlines() if l.strip().startswith("signature: ")]
                caught = r.returncode == 1 and "VIOLATION property=%s" % c in out
                rec = {"seeded": name, "check": c, "tier": tier, "rc": r.returncode, "caught": caught, "signatures": sigs[:8],
                       "wall_s": round(time.time() - t0, 1), "at": time.strftime("%Y-%m-%dT%H:%M:%S")}
                with open(os.path.join(SEEDED, "RESULTS.jsonl"), "a") as f:
                    f.write(json.dumps(rec) + "\n")
                print("%-28s %s %-8s rc=%s caught=%s %s (%.0fs)" % (name, c, tier, r.returncode, caught, sigs[:3], time.time() - t0))
                if r.returncode == 3:
                    print("   harness error: " + out[-400:].replace("\n", " | "))
                summary.append((name, c, caught))
        finally:
            sh(["git", "-C", "/repo", "checkout", "--", "."])
    return 0


if __name__ == "__main__":
    sys.exit(main())
